package main

import (
	"fmt"
	"go/constant"
	"go/token"
	"go/types"
	"strings"

	"golang.org/x/tools/go/ssa"
)

// val returns the symbolic value of an SSA value in the current frame.
func (fv *FV) val(st *State, v ssa.Value) SymVal {
	switch x := v.(type) {
	case *ssa.Const:
		return tv(fv.constVal(x))
	case *ssa.Function:
		return SymVal{K: VClosure, Fn: x}
	case *ssa.Global:
		return SymVal{K: VGlobalPtr, Global: x}
	case *ssa.Builtin:
		return SymVal{K: VNone}
	}
	if r, ok := st.frame.Regs[v]; ok {
		return r
	}
	fv.outsidef("unbound SSA value %s (%T) in %s", v.Name(), v, st.frame.Fn.Name())
	return tv(fv.freshConst(st, "unbound", fv.sortOf(v.Type()), v.Type()))
}

func (fv *FV) constVal(c *ssa.Const) Term {
	t := c.Type()
	if c.Value == nil {
		z := fv.zero(t)
		return z
	}
	switch c.Value.Kind() {
	case constant.Int:
		if _, ok := t.Underlying().(*types.Basic); ok {
			return fv.constTerm(c.Value, t)
		}
	}
	return fv.constTerm(c.Value, t)
}

// term forces a SymVal to a term.
func (fv *FV) term(st *State, v SymVal, t types.Type) Term {
	switch v.K {
	case VTerm:
		return v.T
	case VClosure:
		// function constant or bound method as a value
		recv := "0"
		if len(v.Binds) == 1 && v.Binds[0].K == VTerm && v.Binds[0].T.Sort == SInt {
			recv = v.Binds[0].T.S
		}
		// a closure over local cells used as a value: opaque function value (its body is verified
		// separately under its own contract, with the captured variables as unknowns)
		return Term{S: fmt.Sprintf("(pv_mkfn %d %s)", fv.eng.fid(v.Fn), recv), Sort: SFn, T: t}
	case VHeapPtr:
		if len(v.Path) == 0 {
			return v.Ref
		}
	}
	if v.K == VCellPtr && len(v.Path) == 0 && v.Idx == nil && v.Root != nil {
		if _, isStruct := v.Root.Underlying().(*types.Struct); isStruct && fv.structSortName(v.Root) == "" {
			// address of a local of opaque (non-repo) struct type, e.g. bytes.Buffer: a stable pseudo reference
			name := fmt.Sprintf("pv_localref_%d_%s", v.Cell.Frame, smtName(v.Cell.A.Name()))
			fv.decls.Add(1, name, fmt.Sprintf("(declare-const %s Int)\n(assert (< %s 0))", name, name))
			return Term{S: name, Sort: SInt, T: t}
		}
	}
	if v.K == VGlobalPtr && len(v.Path) == 0 && v.Global != nil {
		// address of a package-level variable of a type from outside the repository (a sync.Pool, a
		// sync.Map, ...), used as the receiver of library calls: a stable pseudo reference, not fresh
		if el, ok := v.Global.Type().(*types.Pointer); ok {
			if _, isStruct := el.Elem().Underlying().(*types.Struct); isStruct && fv.structSortName(el.Elem()) == "" {
				name := "pv_globalref_" + smtName(v.Global.Pkg.Pkg.Name()+"_"+v.Global.Name())
				fv.decls.Add(1, name, fmt.Sprintf("(declare-const %s Int)\n(assert (< %s 0))", name, name))
				return Term{S: name, Sort: SInt, T: t}
			}
		}
	}
	fv.outsidef("address of local/field used as a value in %s", st.frame.Fn.Name())
	return fv.freshConst(st, "addr", SInt, t)
}

func (fv *FV) vterm(st *State, v ssa.Value) Term {
	return fv.term(st, fv.val(st, v), v.Type())
}

func (fv *FV) setReg(st *State, v ssa.Value, sv SymVal) {
	if sv.K == VTerm && sv.T.T == nil {
		sv.T.T = v.Type()
	}
	st.frame.Regs[v] = sv
}

// nonNil emits a nil-dereference obligation for ref (once per path).
func (fv *FV) nonNil(st *State, ref Term, pos token.Pos, what string) {
	if st.nonnil[ref.S] {
		return
	}
	st.nonnil[ref.S] = true
	fv.oblige(st, "nil", what, pos, tNot(tEq(ref, mkInt(0))), "")
}

// load reads through a pointer value.
func (fv *FV) load(st *State, p SymVal, elemT types.Type, pos token.Pos) SymVal {
	switch p.K {
	case VCellPtr:
		cv := st.cells[p.Cell]
		if p.Idx != nil {
			arr := cv.T
			es := fv.sliceElems[arr.Sort]
			r := Term{S: fmt.Sprintf("(select (%s_arr %s) %s)", arr.Sort, arr.S, p.Idx.S), Sort: es, T: elemT}
			return tv(r)
		}
		if len(p.Path) == 0 {
			return cv
		}
		cur := cv.T
		ct := p.Root
		for _, idx := range p.Path {
			cur = fv.structGet(cur, ct, idx)
			ct = cur.T
		}
		return tv(cur)
	case VHeapPtr:
		fv.nonNil(st, p.Ref, pos, "deref")
		return tv(fv.heapLoadPath(st, p.Ref, p.Root, p.Path))
	case VTerm:
		// pointer to a whole object
		fv.nonNil(st, p.T, pos, "deref")
		if stt, ok := elemT.Underlying().(*types.Struct); ok {
			if fv.sortOf(elemT) == fv.structSortName(elemT) {
				var fs []Term
				for i := 0; i < stt.NumFields(); i++ {
					fs = append(fs, fv.heapLoadPath(st, p.T, elemT, []int{i}))
				}
				return tv(fv.structMk(elemT, fs))
			}
			// opaque struct (time.Time, ...): uninterpreted deref
			name := "pv_deref_" + smtName(fv.sortOf(elemT))
			fv.decls.Add(1, name, fmt.Sprintf("(declare-fun %s (Int) %s)", name, fv.sortOf(elemT)))
			return tv(Term{S: "(" + name + " " + p.T.S + ")", Sort: fv.sortOf(elemT), T: elemT})
		}
		// pointer to a non-struct (e.g. *time.Time is struct; *int rare)
		name := "H_ptr_" + smtName(fv.sortOf(elemT))
		h := fv.heapGet(st.heap, st.epoch, name, arraySort(SInt, fv.sortOf(elemT)))
		r := tSelect(h, p.T, fv.sortOf(elemT))
		r.T = elemT
		return tv(r)
	case VElemPtr:
		es := fv.sliceElems[p.Sl.Sort]
		r := Term{S: fmt.Sprintf("(select (%s_arr %s) %s)", p.Sl.Sort, p.Sl.S, p.Idx.S), Sort: es, T: elemT}
		if _, isP := elemT.Underlying().(*types.Pointer); isP {
			r = fv.def(st, "el", r)
			st.assume(fv.isAlloc(st.heap, st.epoch, r))
			fv.assumeTypeInv(st, r, elemT)
		}
		return tv(r)
	case VGlobalPtr:
		g := p.Global
		el := g.Type().(*types.Pointer).Elem()
		name := "G_" + smtName(g.Pkg.Pkg.Name()+"_"+g.Name())
		if isRepoPkg(g.Pkg) {
			fv.globalsRead[g.Name()] = true
		}
		h := fv.heapGet(st.heap, st.epoch, name, fv.sortOf(el))
		h.T = el
		if len(p.Path) > 0 {
			cur := h
			for _, idx := range p.Path {
				cur = fv.structGet(cur, cur.T, idx)
			}
			return tv(cur)
		}
		return tv(h)
	}
	fv.outsidef("load through unsupported pointer kind %d", p.K)
	return tv(fv.freshConst(st, "load", fv.sortOf(elemT), elemT))
}

func (fv *FV) structSortName(t types.Type) string {
	if n, ok := t.(*types.Named); ok {
		if isRepoType(n) {
			return "pv_S_" + smtName(typeShort(n))
		}
		return ""
	}
	if st, ok := t.(*types.Struct); ok {
		return "pv_S_anon_" + smtName(st.String())
	}
	return ""
}

func (fv *FV) heapLoadPath(st *State, ref Term, root types.Type, path []int) Term {
	stt := root.Underlying().(*types.Struct)
	ft := stt.Field(path[0]).Type()
	h := fv.heapGet(st.heap, st.epoch, fieldHeapName(root, path[0]), arraySort(SInt, fv.sortOf(ft)))
	cur := tSelect(h, ref, fv.sortOf(ft))
	cur.T = ft
	for _, idx := range path[1:] {
		cur = fv.structGet(cur, cur.T, idx)
	}
	if owners := st.mentions(ref.S); len(owners) > 0 {
		// a value loaded from a not-yet-escaped object: it may denote the objects stored into
		// that object, never the object itself (the select index is not a value position)
		n := fv.fresh("ldl")
		st.emit(fmt.Sprintf("(define-fun %s () %s %s)", n, cur.Sort, cur.S))
		var kids []string
		seen := map[string]bool{}
		var walk func(o string)
		walk = func(o string) {
			for _, c := range st.owned[o] {
				if !seen[c] {
					seen[c] = true
					kids = append(kids, c)
					walk(c)
				}
			}
		}
		for _, o := range owners {
			walk(o)
		}
		if st.aliases == nil {
			st.aliases = map[string][]string{}
		}
		st.aliases[n] = kids
		cur = Term{S: n, Sort: cur.Sort, T: cur.T}
	}
	if _, isSl := cur.T.Underlying().(*types.Slice); isSl {
		st.assume(Term{S: fmt.Sprintf("(>= (%s_len %s) 0)", cur.Sort, cur.S), Sort: SBool})
	}
	if _, isB := cur.T.Underlying().(*types.Basic); isB && cur.Sort == SInt {
		fv.typeAssume(st, cur, cur.T)
	}
	if _, isI := cur.T.Underlying().(*types.Interface); isI && cur.Sort == SVal {
		cur = fv.def(st, "ldv", cur)
		fv.typeAssume(st, cur, cur.T)
	}
	if _, isP := cur.T.Underlying().(*types.Pointer); isP {
		// refs read from the heap are allocated
		cur = fv.def(st, "ld", cur)
		st.assume(fv.isAlloc(st.heap, st.epoch, cur))
		fv.assumeTypeInv(st, cur, cur.T)
	}
	return cur
}

func (fv *FV) heapStorePath(st *State, ref Term, root types.Type, path []int, v Term) {
	stt := root.Underlying().(*types.Struct)
	ft := stt.Field(path[0]).Type()
	name := fieldHeapName(root, path[0])
	h := fv.heapGet(st.heap, st.epoch, name, arraySort(SInt, fv.sortOf(ft)))
	nv := v
	if len(path) > 1 {
		old := tSelect(h, ref, fv.sortOf(ft))
		old.T = ft
		nv = fv.nestedSet(old, path[1:], v)
	}
	// escape tracking: what is stored into a visible object becomes visible
	for _, r := range st.mentions(nv.S) {
		owners := st.mentions(ref.S)
		if len(owners) > 0 {
			if st.owned == nil {
				st.owned = map[string][]string{}
			}
			for _, o := range owners {
				st.owned[o] = append(append([]string(nil), st.owned[o]...), r)
			}
		} else {
			st.escape(r)
		}
	}
	nh := fv.def(st, name, tStore(h, ref, nv))
	st.heap[name] = nh
	fv.markDirty(st, ref, root)
}

func (fv *FV) nestedSet(cur Term, path []int, v Term) Term {
	if len(path) == 0 {
		return v
	}
	inner := fv.structGet(cur, cur.T, path[0])
	return fv.structSet(cur, cur.T, path[0], fv.nestedSet(inner, path[1:], v))
}

func (fv *FV) store(st *State, p SymVal, v SymVal, vt types.Type, pos token.Pos, in ssa.Instruction) {
	switch p.K {
	case VCellPtr:
		if p.Idx != nil {
			cv := st.cells[p.Cell].T
			t := fv.term(st, v, vt)
			nv := Term{S: fmt.Sprintf("(%s_mk (store (%s_arr %s) %s %s) (%s_len %s))", cv.Sort, cv.Sort, cv.S, p.Idx.S, t.S, cv.Sort, cv.S), Sort: cv.Sort, T: cv.T}
			st.cells[p.Cell] = tv(fv.def(st, "arr", nv))
			return
		}
		if len(p.Path) == 0 {
			if v.K == VTerm {
				v.T = fv.def(st, "c", v.T)
			}
			st.cells[p.Cell] = v
			return
		}
		cv := st.cells[p.Cell].T
		cv.T = p.Root
		nv := fv.nestedSet(cv, p.Path, fv.term(st, v, vt))
		st.cells[p.Cell] = tv(fv.def(st, "c", nv))
	case VHeapPtr:
		fv.nonNil(st, p.Ref, pos, "deref")
		fv.frameCheck(st, p.Ref, p.Root, p.Path[0], pos)
		fv.heapStorePath(st, p.Ref, p.Root, p.Path, fv.term(st, v, vt))
	case VTerm:
		fv.nonNil(st, p.T, pos, "deref")
		if stt, ok := vt.Underlying().(*types.Struct); ok && fv.structSortName(vt) != "" {
			t := fv.term(st, v, vt)
			t.T = vt
			for i := 0; i < stt.NumFields(); i++ {
				fv.frameCheck(st, p.T, vt, i, pos)
				fv.heapStorePath(st, p.T, vt, []int{i}, fv.structGet(t, vt, i))
			}
			return
		}
		name := "H_ptr_" + smtName(fv.sortOf(vt))
		h := fv.heapGet(st.heap, st.epoch, name, arraySort(SInt, fv.sortOf(vt)))
		st.heap[name] = fv.def(st, name, tStore(h, p.T, fv.term(st, v, vt)))
	case VGlobalPtr:
		g := p.Global
		el := g.Type().(*types.Pointer).Elem()
		name := "G_" + smtName(g.Pkg.Pkg.Name()+"_"+g.Name())
		t := fv.term(st, v, vt)
		if len(p.Path) > 0 {
			h := fv.heapGet(st.heap, st.epoch, name, fv.sortOf(el))
			h.T = el
			t = fv.nestedSet(h, p.Path, t)
		}
		fv.globalFrameCheck(st, name, pos)
		st.heap[name] = fv.def(st, name, t)
	case VElemPtr:
		if p.Root == nil {
			fv.outsidef("store into an element of a slice that is not a local variable (%s)", fv.eng.pos(pos))
			return
		}
		cv, ok := st.cells[p.Cell]
		if !ok || cv.K != VTerm || cv.T.S != p.Sl.S {
			fv.outsidef("store into a slice element: the slice variable changed since the element address was taken (%s)", fv.eng.pos(pos))
			return
		}
		fv.assume("A4: element stores into a slice held in a local variable update that variable only (no aliasing)")
		t := fv.term(st, v, vt)
		sl := cv.T
		nv := Term{S: fmt.Sprintf("(%s_mk (store (%s_arr %s) %s %s) (%s_len %s))", sl.Sort, sl.Sort, sl.S, p.Idx.S, t.S, sl.Sort, sl.S), Sort: sl.Sort, T: sl.T}
		st.escapeTerm(t)
		st.cells[p.Cell] = tv(fv.def(st, "slst", nv))
	default:
		fv.outsidef("store through unsupported pointer (%s)", fv.eng.pos(pos))
	}
}

// step executes one instruction.
func (fv *FV) step(st *State) (*State, []*State) {
	fr := st.frame
	if fr.Idx >= len(fr.Block.Instrs) {
		fv.outsidef("fell off block")
		return nil, nil
	}
	in := fr.Block.Instrs[fr.Idx]
	fr.Idx++
	switch x := in.(type) {
	case *ssa.Alloc:
		el := x.Type().(*types.Pointer).Elem()
		if fv.isHeapObject(x) {
			ref := fv.newObject(st, el, x.Comment)
			fv.setReg(st, x, tv(ref))
		} else {
			id := CellID{Frame: fr.ID, A: x}
			st.cells[id] = tv(fv.zero(el))
			fv.setReg(st, x, SymVal{K: VCellPtr, Cell: id, Root: el})
		}
	case *ssa.Store:
		fv.ownedCheck(st, x)
		fv.store(st, fv.val(st, x.Addr), fv.val(st, x.Val), x.Val.Type(), x.Pos(), x)
	case *ssa.UnOp:
		fv.unop(st, x)
	case *ssa.BinOp:
		fv.binop(st, x)
	case *ssa.FieldAddr:
		base := fv.val(st, x.X)
		el, _ := isPtr(x.X.Type())
		switch base.K {
		case VTerm:
			fv.nonNil(st, base.T, x.Pos(), "field")
			fv.setReg(st, x, SymVal{K: VHeapPtr, Ref: base.T, Root: el, Path: []int{x.Field}})
		case VHeapPtr, VCellPtr, VGlobalPtr:
			nb := base
			nb.Path = append(append([]int(nil), base.Path...), x.Field)
			fv.setReg(st, x, nb)
		default:
			fv.outsidef("FieldAddr on unsupported base")
		}
	case *ssa.Field:
		base := fv.vterm(st, x.X)
		base.T = x.X.Type()
		fv.setReg(st, x, tv(fv.structGet(base, x.X.Type(), x.Field)))
	case *ssa.IndexAddr:
		fv.indexAddr(st, x)
	case *ssa.Index:
		base := fv.vterm(st, x.X)
		idx := fv.vterm(st, x.Index)
		if base.Sort == SStr {
			fv.oblige(st, "index", "string", x.Pos(), Term{S: fmt.Sprintf("(and (<= 0 %s) (< %s (pv_len %s)))", idx.S, idx.S, base.S), Sort: SBool}, "")
			fv.setReg(st, x, tv(Term{S: fmt.Sprintf("(pv_at %s %s)", base.S, idx.S), Sort: SInt}))
		} else {
			fv.outsidef("Index on %s", base.Sort)
		}
	case *ssa.Slice:
		fv.sliceOp(st, x)
	case *ssa.Phi:
		// resolved on block entry
	case *ssa.Jump:
		return fv.enterBlock(st, fr.Block, fr.Block.Succs[0]), nil
	case *ssa.If:
		c := fv.vterm(st, x.Cond)
		if c.S == "true" {
			return fv.enterBlock(st, fr.Block, fr.Block.Succs[0]), nil
		}
		if c.S == "false" {
			return fv.enterBlock(st, fr.Block, fr.Block.Succs[1]), nil
		}
		if known, ok := st.facts[c.S]; ok {
			if known {
				return fv.enterBlock(st, fr.Block, fr.Block.Succs[0]), nil
			}
			return fv.enterBlock(st, fr.Block, fr.Block.Succs[1]), nil
		}
		if st.facts == nil {
			st.facts = map[string]bool{}
		}
		other := st.clone()
		blk := fr.Block
		st.facts[c.S] = true
		other.facts[c.S] = false
		st.assume(c)
		st.path += "T"
		other.assume(tNot(c))
		other.path += "F"
		a := fv.enterBlock(st, blk, blk.Succs[0])
		b := fv.enterBlock(other, other.frame.Block, other.frame.Block.Succs[1])
		var forks []*State
		if b != nil {
			forks = append(forks, b)
		}
		return a, forks
	case *ssa.Return:
		return fv.doReturn(st, x), nil
	case *ssa.RunDefers:
		return fv.runDefers(st), nil
	case *ssa.Defer:
		d := Deferred{Call: &x.Call, Instr: x}
		d.Fn = fv.val(st, x.Call.Value)
		if x.Call.IsInvoke() {
			fv.outsidef("deferred invoke")
		}
		for _, a := range x.Call.Args {
			d.Args = append(d.Args, fv.val(st, a))
		}
		fr.Defers = append(fr.Defers, d)
	case *ssa.Call:
		return fv.call(st, x), nil
	case *ssa.Extract:
		t := fv.val(st, x.Tuple)
		if t.K == VTuple && x.Index < len(t.Elems) {
			fv.setReg(st, x, t.Elems[x.Index])
		} else {
			fv.outsidef("extract from non-tuple")
			fv.setReg(st, x, tv(fv.freshConst(st, "ext", fv.sortOf(x.Type()), x.Type())))
		}
	case *ssa.MakeInterface:
		v := fv.vterm(st, x.X)
		fv.setReg(st, x, tv(fv.def(st, "mi", fv.box(v, x.X.Type()))))
	case *ssa.ChangeInterface:
		cv := fv.val(st, x.X)
		if cv.K == VTerm && cv.T.Sort == SInt && fv.sortOf(x.Type()) == SVal {
			cv = tv(fv.box(cv.T, x.X.Type()))
		}
		fv.setReg(st, x, cv)
	case *ssa.ChangeType:
		v := fv.val(st, x.X)
		fv.htmlConv(st, x.X, x.Type(), v, x.Pos())
		if v.K == VTerm {
			v.T.T = x.Type()
		}
		fv.setReg(st, x, v)
	case *ssa.Convert:
		fv.convert(st, x)
	case *ssa.TypeAssert:
		fv.typeAssert(st, x)
	case *ssa.MakeClosure:
		sv := SymVal{K: VClosure, Fn: x.Fn.(*ssa.Function)}
		for _, b := range x.Bindings {
			sv.Binds = append(sv.Binds, fv.val(st, b))
		}
		fv.setReg(st, x, sv)
	case *ssa.MakeMap:
		mt := x.Type().Underlying().(*types.Map)
		ref := fv.newRef(st, "map")
		ks, vs := fv.sortOf(mt.Key()), fv.sortOf(mt.Elem())
		dn := mapDomHeap(ks, vs)
		dh := fv.heapGet(st.heap, st.epoch, dn, arraySort(SInt, arraySort(ks, SBool)))
		st.heap[dn] = fv.def(st, dn, tStore(dh, ref, Term{S: fmt.Sprintf("((as const (Array %s Bool)) false)", ks), Sort: arraySort(ks, SBool)}))
		ref.T = x.Type()
		fv.setReg(st, x, tv(ref))
	case *ssa.MakeSlice:
		es := fv.sortOf(elemType(x.Type()))
		ss := fv.sortOf(x.Type())
		ln := fv.vterm(st, x.Len)
		// make panics for a negative length, for len > cap, and for a size the allocator cannot serve
		// ("makeslice: len/cap out of range"): sizes derived from existing lengths are fine, an
		// arbitrary integer is not
		fv.maxLenDecl()
		cp := ln
		if x.Cap != nil {
			cp = fv.vterm(st, x.Cap)
		}
		fv.oblige(st, "slice", "make", x.Pos(), Term{S: fmt.Sprintf("(and (<= 0 %s) (<= %s %s) (<= %s pv_maxlen))", ln.S, ln.S, cp.S, cp.S), Sort: SBool}, "make: 0 <= len <= cap <= what can be allocated")
		z := fv.zeroOfSort(es, elemType(x.Type()))
		fv.setReg(st, x, tv(Term{S: fmt.Sprintf("(%s_mk %s %s)", ss, fv.constArray(es, z), ln.S), Sort: ss, T: x.Type()}))
	case *ssa.MapUpdate:
		fv.mapUpdate(st, x)
	case *ssa.Lookup:
		fv.lookup(st, x)
	case *ssa.Range:
		fv.rangeInit(st, x)
	case *ssa.Next:
		fv.rangeNext(st, x)
	case *ssa.Panic:
		fv.oblige(st, "panic", "explicit", x.Pos(), tFalse, "")
		return nil, nil
	case *ssa.DebugRef:
	default:
		fv.outsidef("unsupported instruction %T", in)
		if v, ok := in.(ssa.Value); ok {
			fv.setReg(st, v, tv(fv.freshConst(st, "unsup", fv.sortOf(v.Type()), v.Type())))
		}
	}
	return st, nil
}

func (fv *FV) newRef(st *State, prefix string) Term {
	ref := fv.freshConst(st, prefix, SInt, nil)
	if st.local == nil {
		st.local = map[string]bool{}
	}
	st.local[ref.S] = true
	nx := fv.nextOf(st.heap, st.epoch)
	st.assume(tEq(ref, nx))
	st.heap["pv_next"] = Term{S: "(+ " + ref.S + " 1)", Sort: SInt}
	st.nonnil[ref.S] = true
	return ref
}

func (fv *FV) newObject(st *State, el types.Type, comment string) Term {
	ref := fv.newRef(st, "new_"+typeShort(el))
	ref.T = types.NewPointer(el)
	if stt, ok := el.Underlying().(*types.Struct); ok && fv.structSortName(el) != "" {
		for i := 0; i < stt.NumFields(); i++ {
			fv.heapStorePath(st, ref, el, []int{i}, fv.zero(stt.Field(i).Type()))
		}
	}
	// ghost fields of a new object start at their zero value
	for _, name := range sortedKeys(fv.eng.specs.Preds) {
		ps := fv.eng.specs.Preds[name]
		if !ps.Ghost || name != ps.Name || len(ps.Params) != 1 {
			continue
		}
		pt, err := fv.eng.resolveType(ps.Params[0].Type, ps.PkgName)
		if err != nil {
			continue
		}
		if pel, ok := isPtr(pt); ok && types.Identical(pel, el) {
			rt, err := fv.eng.resolveType(ps.Result, ps.PkgName)
			if err != nil {
				continue
			}
			hn := ghostHeapName(ps)
			h := fv.heapGet(st.heap, st.epoch, hn, arraySort(SInt, fv.sortOf(rt)))
			st.heap[hn] = fv.def(st, hn, tStore(h, ref, fv.zero(rt)))
		}
	}
	return ref
}

func (fv *FV) unop(st *State, x *ssa.UnOp) {
	switch x.Op {
	case token.MUL:
		p := fv.val(st, x.X)
		fv.setReg(st, x, fv.load(st, p, x.Type(), x.Pos()))
	case token.NOT:
		fv.setReg(st, x, tv(tNot(fv.vterm(st, x.X))))
	case token.SUB:
		v := fv.vterm(st, x.X)
		if v.Sort == SF64 {
			fv.decls.Add(1, "pv_fneg", "(declare-fun pv_fneg (pv_F64) pv_F64)")
			fv.setReg(st, x, tv(app(SF64, "pv_fneg", v)))
			return
		}
		fv.setReg(st, x, tv(fv.arith(app(SInt, "-", v), x.Type())))
	default:
		fv.outsidef("unop %s", x.Op)
		fv.setReg(st, x, tv(fv.freshConst(st, "unop", fv.sortOf(x.Type()), x.Type())))
	}
}

func (fv *FV) arith(t Term, typ types.Type) Term {
	if fv.wrap {
		if b, ok := typ.Underlying().(*types.Basic); ok && (b.Kind() == types.Int || b.Kind() == types.Int64) {
			return Term{S: "(pv_wrap " + t.S + ")", Sort: SInt, T: typ}
		}
	}
	t.T = typ
	return t
}

func (fv *FV) binop(st *State, x *ssa.BinOp) {
	l, r := fv.vterm(st, x.X), fv.vterm(st, x.Y)
	var res Term
	switch l.Sort {
	case SInt:
		switch x.Op {
		case token.ADD:
			res = fv.arith(app(SInt, "+", l, r), x.Type())
		case token.SUB:
			res = fv.arith(app(SInt, "-", l, r), x.Type())
		case token.MUL:
			res = fv.arith(app(SInt, "*", l, r), x.Type())
		case token.QUO:
			fv.oblige(st, "div", "zero", x.Pos(), tNot(tEq(r, mkInt(0))), "")
			res = fv.arith(app(SInt, "pv_tdiv", l, r), x.Type())
		case token.REM:
			fv.oblige(st, "div", "zero", x.Pos(), tNot(tEq(r, mkInt(0))), "")
			res = app(SInt, "pv_tmod", l, r)
		case token.EQL:
			res = tEq(l, r)
		case token.NEQ:
			res = tNot(tEq(l, r))
		case token.LSS:
			res = app(SBool, "<", l, r)
		case token.LEQ:
			res = app(SBool, "<=", l, r)
		case token.GTR:
			res = app(SBool, ">", l, r)
		case token.GEQ:
			res = app(SBool, ">=", l, r)
		}
	case SBool:
		switch x.Op {
		case token.EQL:
			res = tEq(l, r)
		case token.NEQ:
			res = tNot(tEq(l, r))
		case token.AND, token.LAND:
			res = tAnd(l, r)
		case token.OR, token.LOR:
			res = tOr(l, r)
		}
	case SStr:
		switch x.Op {
		case token.ADD:
			res = app(SStr, "pv_cat", l, r)
		case token.EQL:
			res = tEq(l, r)
		case token.NEQ:
			res = tNot(tEq(l, r))
		case token.LSS, token.LEQ, token.GTR, token.GEQ:
			fv.decls.Add(1, "pv_strlt", "(declare-fun pv_strlt (pv_Str pv_Str) Bool)\n(assert (forall ((a pv_Str)) (! (not (pv_strlt a a)) :pattern ((pv_strlt a a)))))")
			switch x.Op {
			case token.LSS:
				res = app(SBool, "pv_strlt", l, r)
			case token.GTR:
				res = app(SBool, "pv_strlt", r, l)
			case token.LEQ:
				res = tNot(app(SBool, "pv_strlt", r, l))
			case token.GEQ:
				res = tNot(app(SBool, "pv_strlt", l, r))
			}
		}
	case SF64:
		fv.assume("A2: float64 operators are uninterpreted symbols (one per operator)")
		name := map[token.Token]string{token.ADD: "pv_fadd", token.SUB: "pv_fsub", token.MUL: "pv_fmul", token.QUO: "pv_fdiv"}[x.Op]
		if name != "" {
			fv.decls.Add(1, name, fmt.Sprintf("(declare-fun %s (pv_F64 pv_F64) pv_F64)", name))
			res = app(SF64, name, l, r)
		} else {
			fv.decls.Add(1, "pv_flt", "(declare-fun pv_flt (pv_F64 pv_F64) Bool)\n(declare-fun pv_feq (pv_F64 pv_F64) Bool)")
			switch x.Op {
			case token.EQL:
				res = app(SBool, "pv_feq", l, r)
			case token.NEQ:
				res = tNot(app(SBool, "pv_feq", l, r))
			case token.LSS:
				res = app(SBool, "pv_flt", l, r)
			case token.GTR:
				res = app(SBool, "pv_flt", r, l)
			case token.LEQ:
				res = tOr(app(SBool, "pv_flt", l, r), app(SBool, "pv_feq", l, r))
			case token.GEQ:
				res = tOr(app(SBool, "pv_flt", r, l), app(SBool, "pv_feq", l, r))
			}
		}
	case SVal:
		// interface comparison
		var eq Term
		if isNilVal(r) {
			eq = tEq(tidOf(l), mkInt(0))
		} else if isNilVal(l) {
			eq = tEq(tidOf(r), mkInt(0))
		} else {
			eq = tEq(l, r)
		}
		switch x.Op {
		case token.EQL:
			res = eq
		case token.NEQ:
			res = tNot(eq)
		}
	default:
		eq := tEq(l, r)
		if l.Sort == SFn && r.S == "(pv_mkfn 0 0)" {
			eq = tEq(Term{S: "(pv_fid " + l.S + ")", Sort: SInt}, mkInt(0))
		} else if l.Sort == SFn && l.S == "(pv_mkfn 0 0)" {
			eq = tEq(Term{S: "(pv_fid " + r.S + ")", Sort: SInt}, mkInt(0))
		}
		switch x.Op {
		case token.EQL:
			res = eq
		case token.NEQ:
			res = tNot(eq)
		}
	}
	if res.IsZero() {
		fv.outsidef("binop %s on %s", x.Op, l.Sort)
		res = fv.freshConst(st, "binop", fv.sortOf(x.Type()), x.Type())
	}
	res.T = x.Type()
	fv.setReg(st, x, tv(fv.def(st, "b", res)))
}

func (fv *FV) indexAddr(st *State, x *ssa.IndexAddr) {
	base := fv.val(st, x.X)
	idx := fv.vterm(st, x.Index)
	if base.K == VCellPtr && len(base.Path) == 0 {
		// pointer to a local array
		cv := st.cells[base.Cell].T
		fv.oblige(st, "index", "array", x.Pos(), Term{S: fmt.Sprintf("(and (<= 0 %s) (< %s (%s_len %s)))", idx.S, idx.S, cv.Sort, cv.S), Sort: SBool}, "")
		nb := base
		nb.Idx = &idx
		fv.setReg(st, x, nb)
		return
	}
	if base.K == VTerm && strings.HasPrefix(base.T.Sort, "pv_Sl_") {
		sl := base.T
		fv.oblige(st, "index", "slice", x.Pos(), Term{S: fmt.Sprintf("(and (<= 0 %s) (< %s (%s_len %s)))", idx.S, idx.S, sl.Sort, sl.S), Sort: SBool}, "")
		ep := SymVal{K: VElemPtr, Sl: sl, Idx: &idx}
		// element of a slice held in a local variable: stores update that variable's value
		// (A4: slices are values; sound when the slice is not aliased, e.g. made in this function)
		if ld, ok := x.X.(*ssa.UnOp); ok {
			if al, ok := ld.X.(*ssa.Alloc); ok && !fv.isHeapObject(al) {
				ep.Cell = CellID{Frame: st.frame.ID, A: al}
				ep.Root = al.Type().(*types.Pointer).Elem()
			}
		}
		fv.setReg(st, x, ep)
		return
	}
	fv.outsidef("IndexAddr on unsupported base at %s", fv.eng.pos(x.Pos()))
	fv.setReg(st, x, SymVal{K: VNone})
}

func (fv *FV) sliceOp(st *State, x *ssa.Slice) {
	base := fv.val(st, x.X)
	var bt Term
	if base.K == VCellPtr {
		bt = st.cells[base.Cell].T // pointer to local array
	} else {
		bt = fv.term(st, base, x.X.Type())
	}
	lo := mkInt(0)
	if x.Low != nil {
		lo = fv.vterm(st, x.Low)
	}
	var ln Term
	if bt.Sort == SStr {
		ln = Term{S: "(pv_len " + bt.S + ")", Sort: SInt}
	} else {
		ln = Term{S: fmt.Sprintf("(%s_len %s)", bt.Sort, bt.S), Sort: SInt}
	}
	hi := ln
	if x.High != nil {
		hi = fv.vterm(st, x.High)
	}
	if x.Low != nil || x.High != nil {
		fv.oblige(st, "slice", "bounds", x.Pos(), Term{S: fmt.Sprintf("(and (<= 0 %s) (<= %s %s) (<= %s %s))", lo.S, lo.S, hi.S, hi.S, ln.S), Sort: SBool}, "")
	}
	if bt.Sort == SStr {
		r := app(SStr, "pv_sub", bt, lo, hi)
		r.T = x.Type()
		fv.setReg(st, x, tv(fv.def(st, "sub", r)))
		return
	}
	if x.Low == nil && x.High == nil {
		bt.T = x.Type()
		fv.setReg(st, x, tv(bt))
		return
	}
	// general sub-slice: an uninterpreted function per slice sort with defining axioms
	r := fv.subSlice(bt, lo, hi)
	r.T = x.Type()
	fv.setReg(st, x, tv(r))
}

func (fv *FV) convert(st *State, x *ssa.Convert) {
	v := fv.vterm(st, x.X)
	fv.htmlConv(st, x.X, x.Type(), tv(v), x.Pos())
	from, to := fv.sortOf(x.X.Type()), fv.sortOf(x.Type())
	switch {
	case from == to:
		v.T = x.Type()
		fv.setReg(st, x, tv(v))
	case from == SInt && to == SStr:
		r := app(SStr, "pv_chr", v)
		r.T = x.Type()
		fv.setReg(st, x, tv(r))
	case from == SStr && strings.HasPrefix(to, "pv_Sl_"):
		// []byte(s) / []rune(s)
		r := fv.strToSlice(v, x.Type())
		fv.setReg(st, x, tv(r))
	case strings.HasPrefix(from, "pv_Sl_") && to == SStr:
		isRune := false
		if b, ok := elemType(x.X.Type()).Underlying().(*types.Basic); ok && b.Kind() == types.Int32 {
			isRune = true
		}
		r := fv.sliceToStr(v, isRune)
		r.T = x.Type()
		fv.setReg(st, x, tv(r))
	case from == SInt && to == SF64:
		fv.decls.Add(1, "pv_itof", "(declare-fun pv_itof (Int) pv_F64)")
		fv.setReg(st, x, tv(app(SF64, "pv_itof", v)))
	case from == SF64 && to == SInt:
		fv.decls.Add(1, "pv_ftoi", "(declare-fun pv_ftoi (pv_F64) Int)")
		fv.setReg(st, x, tv(app(SInt, "pv_ftoi", v)))
	default:
		fv.outsidef("convert %s -> %s", from, to)
		fv.setReg(st, x, tv(fv.freshConst(st, "conv", to, x.Type())))
	}
}

func (fv *FV) typeAssert(st *State, x *ssa.TypeAssert) {
	v := fv.vterm(st, x.X)
	ok := fv.hasType(v, x.AssertedType)
	res := fv.unbox(v, x.AssertedType)
	if x.CommaOk {
		okc := fv.def(st, "ok", ok)
		// on failure the value is the zero value
		val := tIte(okc, res, fv.zero(x.AssertedType))
		val.T = x.AssertedType
		tav := fv.def(st, "ta", val)
		if _, isSl := x.AssertedType.Underlying().(*types.Slice); isSl {
			fv.typeAssume(st, tav, x.AssertedType)
		}
		if _, isP := x.AssertedType.Underlying().(*types.Pointer); isP {
			st.assume(tImp(okc, fv.isAlloc(st.heap, st.epoch, tav)))
			fv.assumeTypeInvIf(st, okc, tav, x.AssertedType)
		}
		if isErrorType(x.AssertedType) {
			fv.recordErr(st, tav, okc, "assert-error", x.Pos(), true)
		}
		fv.setReg(st, x, SymVal{K: VTuple, Elems: []SymVal{tv(tav), tv(okc)}})
		return
	}
	fv.oblige(st, "assert-type", typeShort(x.AssertedType), x.Pos(), ok, "")
	if _, isSl := x.AssertedType.Underlying().(*types.Slice); isSl {
		fv.typeAssume(st, res, x.AssertedType)
	}
	if _, isP := x.AssertedType.Underlying().(*types.Pointer); isP {
		st.assume(fv.isAlloc(st.heap, st.epoch, res))
		fv.assumeTypeInv(st, res, x.AssertedType)
	}
	fv.setReg(st, x, tv(res))
}

func (fv *FV) mapSorts(t types.Type) (string, string, *types.Map) {
	m := t.Underlying().(*types.Map)
	return fv.sortOf(m.Key()), fv.sortOf(m.Elem()), m
}

func (fv *FV) mapUpdate(st *State, x *ssa.MapUpdate) {
	m := fv.vterm(st, x.Map)
	ks, vs, _ := fv.mapSorts(x.Map.Type())
	k, v := fv.vterm(st, x.Key), fv.vterm(st, x.Value)
	fv.oblige(st, "mapnil", "update", x.Pos(), tNot(tEq(m, mkInt(0))), "")
	st.escapeTerm(k)
	st.escapeTerm(v)
	fv.mapFrameCheck(st, m, x.Pos())
	fv.guardCheck(st, x.Map, x.Pos(), true)
	dn, vn := mapDomHeap(ks, vs), mapValHeap(ks, vs)
	dh := fv.heapGet(st.heap, st.epoch, dn, arraySort(SInt, arraySort(ks, SBool)))
	vh := fv.heapGet(st.heap, st.epoch, vn, arraySort(SInt, arraySort(ks, vs)))
	st.heap[dn] = fv.def(st, dn, tStore(dh, m, tStore(tSelect(dh, m, arraySort(ks, SBool)), k, tTrue)))
	st.heap[vn] = fv.def(st, vn, tStore(vh, m, tStore(tSelect(vh, m, arraySort(ks, vs)), k, v)))
}

func (fv *FV) lookup(st *State, x *ssa.Lookup) {
	base := fv.vterm(st, x.X)
	idx := fv.vterm(st, x.Index)
	if base.Sort == SStr {
		fv.oblige(st, "index", "string", x.Pos(), Term{S: fmt.Sprintf("(and (<= 0 %s) (< %s (pv_len %s)))", idx.S, idx.S, base.S), Sort: SBool}, "")
		fv.setReg(st, x, tv(Term{S: fmt.Sprintf("(pv_at %s %s)", base.S, idx.S), Sort: SInt}))
		return
	}
	ks, vs, mt := fv.mapSorts(x.X.Type())
	fv.guardCheck(st, x.X, x.Pos(), false)
	dh := fv.heapGet(st.heap, st.epoch, mapDomHeap(ks, vs), arraySort(SInt, arraySort(ks, SBool)))
	vh := fv.heapGet(st.heap, st.epoch, mapValHeap(ks, vs), arraySort(SInt, arraySort(ks, vs)))
	present := tAnd(tNot(tEq(base, mkInt(0))), tSelect(tSelect(dh, base, arraySort(ks, SBool)), idx, SBool))
	present = fv.def(st, "present", present)
	val := tIte(present, tSelect(tSelect(vh, base, arraySort(ks, vs)), idx, vs), fv.zero(mt.Elem()))
	val.T = mt.Elem()
	val = fv.def(st, "mv", val)
	if x.CommaOk {
		fv.setReg(st, x, SymVal{K: VTuple, Elems: []SymVal{tv(val), tv(present)}})
	} else {
		fv.setReg(st, x, tv(val))
	}
}

func (fv *FV) rangeInit(st *State, x *ssa.Range) {
	if b, ok := x.X.Type().Underlying().(*types.Basic); ok && b.Info()&types.IsString != 0 {
		// range over a string: iterator state = byte offset of the next rune
		s := fv.vterm(st, x.X)
		id := CellID{Frame: st.frame.ID, A: x}
		st.cells[id] = tv(mkInt(0))
		fv.setReg(st, x, SymVal{K: VMapIter, Cell: id, T: s})
		return
	}
	if _, ok := x.X.Type().Underlying().(*types.Map); !ok {
		fv.outsidef("range over %s", x.X.Type())
		return
	}
	m := fv.vterm(st, x.X)
	fv.guardCheck(st, x.X, x.Pos(), false)
	ks, _, _ := fv.mapSorts(x.X.Type())
	id := CellID{Frame: st.frame.ID, A: x}
	st.cells[id] = tv(Term{S: fmt.Sprintf("((as const (Array %s Bool)) false)", ks), Sort: arraySort(ks, SBool)})
	fv.setReg(st, x, SymVal{K: VMapIter, Cell: id, T: m})
}

func (fv *FV) rangeNext(st *State, x *ssa.Next) {
	it := fv.val(st, x.Iter)
	if it.K != VMapIter {
		fv.outsidef("Next on non-map iterator")
		return
	}
	r := x.Iter.(*ssa.Range)
	if x.IsString {
		s := it.T
		off := st.cells[it.Cell].T
		fv.runeDecls()
		ok := fv.def(st, "rng_ok", app(SBool, "<", off, Term{S: "(pv_len " + s.S + ")", Sort: SInt}))
		w := Term{S: fmt.Sprintf("(pv_runew %s %s)", s.S, off.S), Sort: SInt}
		nc := st.cells[it.Cell]
		nc.T = fv.def(st, "rng_off", tIte(ok, app(SInt, "+", off, w), off))
		st.cells[it.Cell] = nc
		rv := Term{S: fmt.Sprintf("(pv_runeat %s %s)", s.S, off.S), Sort: SInt, T: types.Typ[types.Int32]}
		koff := off
		koff.T = types.Typ[types.Int]
		fv.setReg(st, x, SymVal{K: VTuple, Elems: []SymVal{tv(ok), tv(koff), tv(rv)}})
		return
	}
	ks, vs, mt := fv.mapSorts(r.X.Type())
	m := it.T
	visited := st.cells[it.Cell].T
	dh := fv.heapGet(st.heap, st.epoch, mapDomHeap(ks, vs), arraySort(SInt, arraySort(ks, SBool)))
	vh := fv.heapGet(st.heap, st.epoch, mapValHeap(ks, vs), arraySort(SInt, arraySort(ks, vs)))
	dom := tSelect(dh, m, arraySort(ks, SBool))
	ok := fv.freshConst(st, "rng_ok", SBool, nil)
	k := fv.freshConst(st, "rng_k", ks, mt.Key())
	// ok => k in dom, not visited ; !ok => all of dom visited
	fv.nfresh++
	q := fmt.Sprintf("k_q%d", fv.nfresh)
	domOK := tAnd(tNot(tEq(m, mkInt(0))), tSelect(dom, k, SBool), tNot(tSelect(visited, k, SBool)))
	st.assume(tImp(ok, domOK))
	st.assume(tImp(tNot(ok), tOr(tEq(m, mkInt(0)), Term{S: fmt.Sprintf("(forall ((%s %s)) (=> (select %s %s) (select %s %s)))", q, ks, dom.S, q, visited.S, q), Sort: SBool})))
	nv := fv.def(st, "visited", tStore(visited, k, tTrue))
	ncell := st.cells[it.Cell]
	ncell.T = tIte(ok, nv, visited)
	st.cells[it.Cell] = ncell
	v := tSelect(tSelect(vh, m, arraySort(ks, vs)), k, vs)
	v.T = mt.Elem()
	fv.setReg(st, x, SymVal{K: VTuple, Elems: []SymVal{tv(ok), tv(k), tv(fv.def(st, "rng_v", v))}})
}

// subSlice: s[lo:hi] for slices, as a function with defining axioms (so that specs can name the same term).
func (fv *FV) subSlice(bt, lo, hi Term) Term {
	srt := bt.Sort
	es := fv.sliceElems[srt]
	name := "pv_subsl_" + smtName(srt)
	fv.decls.Add(1, name, fmt.Sprintf(`(declare-fun %[1]s (%[2]s Int Int) %[2]s)
(assert (forall ((s %[2]s) (i Int) (j Int)) (! (= (%[2]s_len (%[1]s s i j)) (- j i)) :pattern ((%[1]s s i j)))))
(assert (forall ((s %[2]s) (i Int) (j Int) (k Int)) (! (=> (and (<= 0 k) (< k (- j i))) (= (select (%[2]s_arr (%[1]s s i j)) k) (select (%[2]s_arr s) (+ i k)))) :pattern ((select (%[2]s_arr (%[1]s s i j)) k)))))`, name, srt))
	_ = es
	return Term{S: fmt.Sprintf("(%s %s %s %s)", name, bt.S, lo.S, hi.S), Sort: srt}
}

func (fv *FV) runeDecls() {
	fv.assume("A3b: UTF-8 decoding facts (rune width 1..4, rune offsets, rune count) are axioms about the Go string/rune conversions")
	fv.decls.Add(1, "pv_runew", `(declare-fun pv_runew (pv_Str Int) Int)
(declare-fun pv_runeat (pv_Str Int) Int)
(declare-fun pv_runeoff (pv_Str Int) Int)
(declare-fun pv_rlen (pv_Str) Int)
(assert (forall ((s pv_Str) (i Int)) (! (=> (and (<= 0 i) (< i (pv_len s))) (and (<= 1 (pv_runew s i)) (<= (pv_runew s i) 4) (<= (+ i (pv_runew s i)) (pv_len s)))) :pattern ((pv_runew s i)))))
(assert (forall ((s pv_Str)) (! (and (= (pv_runeoff s 0) 0) (>= (pv_rlen s) 0) (<= (pv_rlen s) (pv_len s)) (= (pv_runeoff s (pv_rlen s)) (pv_len s))) :pattern ((pv_rlen s)))))
(assert (forall ((s pv_Str)) (! (= (pv_runeoff s 0) 0) :pattern ((pv_runeoff s 0)))))
(assert (forall ((s pv_Str) (k Int) (t pv_Str)) (! (=> (and (<= 0 k) (<= k (pv_rlen s))) (<= (pv_rlen (pv_cat (pv_sub s 0 (pv_runeoff s k)) t)) (+ k (pv_rlen t)))) :pattern ((pv_cat (pv_sub s 0 (pv_runeoff s k)) t)))))
(assert (forall ((s pv_Str) (k Int)) (! (=> (and (<= 0 k) (< k (pv_rlen s))) (and (< (pv_runeoff s k) (pv_len s)) (<= 0 (pv_runeoff s k)) (= (pv_runeoff s (+ k 1)) (+ (pv_runeoff s k) (pv_runew s (pv_runeoff s k)))))) :pattern ((pv_runeoff s k)))))`)
}

// strToSlice: []rune(s) / []byte(s)
func (fv *FV) strToSlice(v Term, t types.Type) Term {
	to := fv.sortOf(t)
	name := "pv_conv_" + smtName(typeShort(t))
	isRune := false
	if b, ok := elemType(t).Underlying().(*types.Basic); ok && b.Kind() == types.Int32 {
		isRune = true
	}
	if isRune {
		fv.runeDecls()
		fv.decls.Add(1, name, fmt.Sprintf("(declare-fun %s (pv_Str) %s)\n(assert (forall ((s pv_Str)) (! (= (%s_len (%s s)) (pv_rlen s)) :pattern ((%s s)))))", name, to, to, name, name))
	} else {
		fv.decls.Add(1, name, fmt.Sprintf("(declare-fun %s (pv_Str) %s)\n(assert (forall ((s pv_Str)) (! (= (%s_len (%s s)) (pv_len s)) :pattern ((%s s)))))", name, to, to, name, name))
	}
	r := app(to, name, v)
	r.T = t
	return r
}

func (fv *FV) sliceToStr(v Term, isRune bool) Term {
	name := "pv_conv_str_" + smtName(v.Sort)
	if isRune {
		name = "pv_conv_runestr"
	}
	fv.decls.Add(1, name, fmt.Sprintf("(declare-fun %s (%s) pv_Str)", name, v.Sort))
	if isRune {
		// string(runes): every rune contributes one rune to the result, also in front of more text
		fv.runeDecls()
		fv.decls.Add(1, name+":rlen", fmt.Sprintf("(assert (forall ((r %s) (t pv_Str)) (! (= (pv_rlen (pv_cat (%s r) t)) (+ (%s_len r) (pv_rlen t))) :pattern ((pv_cat (%s r) t)))))", v.Sort, name, v.Sort, name))
	}
	return app(SStr, name, v)
}

func isTemplateHTML(t types.Type) bool {
	n, ok := t.(*types.Named)
	return ok && n.Obj().Pkg() != nil && n.Obj().Pkg().Path() == "html/template" && n.Obj().Name() == "HTML"
}

// htmlConv: converting text to template.HTML marks it as trusted markup (emitted verbatim by the
// output sink). Every such conversion of non-constant text needs trusted(text) - text that already
// went through the sink, template-author literals, or an explicitly licensed conversion (raw()).
func (fv *FV) htmlConv(st *State, src ssa.Value, to types.Type, v SymVal, pos token.Pos) {
	if !isTemplateHTML(to) || isTemplateHTML(src.Type()) {
		return
	}
	if _, isConst := src.(*ssa.Const); isConst {
		return
	}
	if fv.spec != nil && fv.spec.HTMLLicensed {
		fv.assume("licensed conversion to template.HTML in " + fv.short + " (the helper's purpose: raw())")
		return
	}
	var t Term
	switch {
	case v.K == VTerm && v.T.Sort == SStr:
		t = v.T
	case v.K == VTerm && strings.HasPrefix(v.T.Sort, "pv_Sl_"):
		t = fv.sliceToStr(v.T, false)
	default:
		return
	}
	fv.decls.Add(1, "pv_trusted", "(declare-fun pv_trusted (pv_Str) Bool)\n(assert (pv_trusted pv_empty))")
	fv.oblige(st, "htmlconv", "trusted", pos, Term{S: "(pv_trusted " + t.S + ")", Sort: SBool}, "text converted to template.HTML must be trusted markup")
}

// ownedCheck: `owned NAME` - the local NAME may only ever hold a slice whose backing array this
// activation allocated (a literal, make, nil, or append/reslice of such a value). Slices are modelled as
// values, so a slice that shares its backing array with the heap (a scratch buffer kept in a field, a
// parameter) could be overwritten by a callee without the model noticing: the directive rules that out
// syntactically for the locals the contract relies on.
func (fv *FV) ownedCheck(st *State, x *ssa.Store) {
	if fv.spec == nil || len(fv.spec.Owned) == 0 || st.frame == nil || st.frame.ID != 0 {
		return
	}
	cellName := func(v ssa.Value) string {
		switch c := v.(type) {
		case *ssa.Alloc:
			return c.Comment
		case *ssa.FreeVar:
			return c.Name()
		}
		return ""
	}
	isOwned := func(v ssa.Value) bool {
		name := cellName(v)
		for _, n := range fv.spec.Owned {
			if name != "" && n == name {
				return true
			}
		}
		return false
	}
	if !isOwned(x.Addr) {
		return
	}
	aName := cellName(x.Addr)
	var fresh func(v ssa.Value, depth int) bool
	fresh = func(v ssa.Value, depth int) bool {
		if depth > 12 {
			return false
		}
		switch y := v.(type) {
		case *ssa.Const:
			return y.IsNil()
		case *ssa.MakeSlice:
			return true
		case *ssa.Slice:
			if al, ok := y.X.(*ssa.Alloc); ok {
				_, isArr := al.Type().(*types.Pointer).Elem().Underlying().(*types.Array)
				return isArr
			}
			return fresh(y.X, depth+1)
		case *ssa.UnOp:
			if y.Op == token.MUL {
				if isOwned(y.X) {
					return true
				}
			}
			return false
		case *ssa.Call:
			if b, ok := y.Call.Value.(*ssa.Builtin); ok && b.Name() == "append" && len(y.Call.Args) > 0 {
				return fresh(y.Call.Args[0], depth+1)
			}
			return false
		case *ssa.ChangeType:
			return fresh(y.X, depth+1)
		}
		return false
	}
	goal := tTrue
	if !fresh(x.Val, 0) {
		goal = tFalse
	}
	fv.oblige(st, "owned", aName, x.Pos(), goal, "local "+aName+" must only hold slices allocated by this activation (no shared backing array)")
}

// maxLenDecl: pv_maxlen bounds the length of every existing string, slice and map (they fit in memory);
// an arbitrary integer is not below it.
func (fv *FV) maxLenDecl() {
	fv.decls.Add(1, "pv_maxlen", "(declare-const pv_maxlen Int)\n(assert (>= pv_maxlen 1099511627776))")
}
