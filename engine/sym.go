package main

import (
	"go/ast"
	"fmt"
	"go/token"
	"go/types"
	"sort"
	"strings"

	"golang.org/x/tools/go/ssa"
)

const maxPaths = 20000

type LoopInfo struct {
	Ord    int
	Head   *ssa.BasicBlock
	Body   map[*ssa.BasicBlock]bool
	Cells  map[ssa.Value]bool // allocs / ranges / phis modified in the loop
	Heaps  map[string]string  // heap name -> sort
	All    bool               // some callee assigns everything
	Alloc  bool               // something in the loop allocates
	Spec   *LoopSpec
}

func NewFV(eng *Engine, fn *ssa.Function, spec *FuncSpec) *FV {
	fv := &FV{eng: eng, fn: fn, spec: spec, decls: NewDecls(), usedSpecFns: map[string]bool{},
		strConsts: map[string]string{}, unmodelled: map[string]bool{}, inlined: map[string]bool{}, uncontracted: map[string]bool{}, globalsRead: map[string]bool{},
		calleesByContract: map[string]bool{}, assumptions: map[string]bool{}, implUsed: map[string]types.Type{},
		sliceElems: map[string]string{}, hsUses: map[string][]heapUse{}, hsBusy: map[string]bool{}, hsUnfolded: map[*State]map[string]bool{}}
	fv.short = funcKey(fn)
	if spec != nil {
		fv.wrap = spec.ArithWrap
	}
	return fv
}

func (fv *FV) oblige(st *State, kind, detail string, pos token.Pos, goal Term, clause string) {
	if goal.S == "true" {
		// syntactically valid: recorded (so that the ledger knows the obligation exists), no solver needed
		o := &Obligation{Func: fv.short, Kind: kind, Detail: detail, Pos: pos, PosStr: fv.eng.pos(pos),
			script: st.script, goal: goal, Path: st.path, Clause: clause, Status: "unsat", Solver: "syntactic"}
		o.id = len(fv.obls)
		fv.obls = append(fv.obls, o)
		return
	}
	if goal.S == "false" && syntacticKinds[kind] {
		// a verdict reached on the program text (ownership, lock discipline, constant table): refuted
		// without a solver; the path is not cut short
		o := &Obligation{Func: fv.short, Kind: kind, Detail: detail, Pos: pos, PosStr: fv.eng.pos(pos),
			script: st.script, goal: goal, Path: st.path, Clause: clause, Status: "sat", Solver: "syntactic",
			Model: "refuted on the program text: " + clause}
		o.id = len(fv.obls)
		fv.obls = append(fv.obls, o)
		return
	}
	o := &Obligation{Func: fv.short, Kind: kind, Detail: detail, Pos: pos, PosStr: fv.eng.pos(pos),
		script: st.script, goal: goal, Path: st.path, Clause: clause}
	fv.addObl(st, o)
	st.assume(goal)
}

var syntacticKinds = map[string]bool{"table": true, "owned": true, "lock": true, "guard": true, "order": true}

// ---- loop analysis -------------------------------------------------------

func (fv *FV) analyzeLoops() {
	fn := fv.fn
	fv.loops = map[*ssa.BasicBlock]*LoopInfo{}
	if len(fn.Blocks) == 0 {
		return
	}
	// back edges via dominators
	type edge struct{ from, to *ssa.BasicBlock }
	var backs []edge
	for _, b := range fn.Blocks {
		for _, s := range b.Succs {
			if s.Dominates(b) {
				backs = append(backs, edge{b, s})
			}
		}
	}
	for _, e := range backs {
		li := fv.loops[e.to]
		if li == nil {
			li = &LoopInfo{Head: e.to, Body: map[*ssa.BasicBlock]bool{e.to: true}, Cells: map[ssa.Value]bool{}, Heaps: map[string]string{}}
			fv.loops[e.to] = li
		}
		// natural loop
		stack := []*ssa.BasicBlock{e.from}
		for len(stack) > 0 {
			b := stack[len(stack)-1]
			stack = stack[:len(stack)-1]
			if li.Body[b] {
				continue
			}
			li.Body[b] = true
			stack = append(stack, b.Preds...)
		}
	}
	// order heads by source position of first instruction with a position
	var heads []*ssa.BasicBlock
	for h := range fv.loops {
		heads = append(heads, h)
	}
	posOf := func(b *ssa.BasicBlock) token.Pos {
		best := token.Pos(0)
		for blk := range fv.loops[b].Body {
			for _, in := range blk.Instrs {
				if p := in.Pos(); p.IsValid() && (best == 0 || p < best) {
					best = p
				}
			}
		}
		return best
	}
	sort.Slice(heads, func(i, j int) bool {
		pi, pj := posOf(heads[i]), posOf(heads[j])
		if pi != pj {
			return pi < pj
		}
		return heads[i].Index < heads[j].Index
	})
	for i, h := range heads {
		li := fv.loops[h]
		li.Ord = i + 1
		if fv.spec != nil {
			li.Spec = fv.spec.Loops[li.Ord]
		}
		for b := range li.Body {
			for _, in := range b.Instrs {
				fv.loopEffects(li, in, 0)
			}
		}
		for _, in := range h.Instrs {
			if phi, ok := in.(*ssa.Phi); ok {
				li.Cells[phi] = true
			}
		}
	}
}

// loopEffects records what an instruction in a loop body may modify.
func (fv *FV) loopEffects(li *LoopInfo, in ssa.Instruction, depth int) {
	switch x := in.(type) {
	case *ssa.Store:
		fv.storeTarget(li, x.Addr)
	case *ssa.MapUpdate:
		if m, ok := x.Map.Type().Underlying().(*types.Map); ok {
			ks, vs := fv.sortOf(m.Key()), fv.sortOf(m.Elem())
			li.Heaps[mapValHeap(ks, vs)] = arraySort(SInt, arraySort(ks, vs))
			li.Heaps[mapDomHeap(ks, vs)] = arraySort(SInt, arraySort(ks, SBool))
		}
	case *ssa.Next:
		if r, ok := x.Iter.(*ssa.Range); ok {
			li.Cells[r] = true
		}
	case *ssa.Alloc:
		if x.Heap {
			li.Alloc = true
		}
	case *ssa.MakeMap, *ssa.MakeSlice:
		li.Alloc = true
	case *ssa.MakeInterface:
	case ssa.CallInstruction:
		fv.callEffects(li, x.Common(), depth)
	}
}

func (fv *FV) storeTarget(li *LoopInfo, addr ssa.Value) {
	switch a := addr.(type) {
	case *ssa.Alloc:
		li.Cells[a] = true
	case *ssa.FieldAddr:
		// walk to the root
		root := ssa.Value(a)
		var first *ssa.FieldAddr
		for {
			fa, ok := root.(*ssa.FieldAddr)
			if !ok {
				break
			}
			first = fa
			root = fa.X
		}
		if al, ok := root.(*ssa.Alloc); ok && !fv.isHeapObject(al) {
			li.Cells[al] = true
			return
		}
		if first != nil {
			el, _ := isPtr(first.X.Type())
			if st, ok := el.Underlying().(*types.Struct); ok {
				li.Heaps[fieldHeapName(el, first.Field)] = arraySort(SInt, fv.sortOf(st.Field(first.Field).Type()))
			}
		}
	case *ssa.IndexAddr:
		if al, ok := a.X.(*ssa.Alloc); ok {
			li.Cells[al] = true
		} else if ld, ok := a.X.(*ssa.UnOp); ok {
			if al, ok := ld.X.(*ssa.Alloc); ok && !fv.isHeapObject(al) {
				li.Cells[al] = true // element store into a slice held in a local variable
			} else {
				li.All = true
			}
		} else {
			li.All = true
		}
	case *ssa.Global:
		li.Heaps["G_"+smtName(a.Pkg.Pkg.Name()+"_"+a.Name())] = fv.sortOf(a.Type().(*types.Pointer).Elem())
	case *ssa.FreeVar:
		// closure writing a captured cell: handled by binding analysis at the call
	default:
		li.All = true
	}
}

func (fv *FV) callEffects(li *LoopInfo, c *ssa.CallCommon, depth int) {
	if c.IsInvoke() {
		spec := fv.ifaceSpec(c)
		fv.specEffects(li, spec, nil, c)
		return
	}
	switch v := c.Value.(type) {
	case *ssa.Builtin:
		return
	case *ssa.Function:
		fv.fnEffects(li, v, c, depth)
	case *ssa.MakeClosure:
		fn := v.Fn.(*ssa.Function)
		// captured cells written by the closure
		for i, fvar := range fn.FreeVars {
			for _, b := range fn.Blocks {
				for _, in := range b.Instrs {
					if s, ok := in.(*ssa.Store); ok && s.Addr == ssa.Value(fvar) {
						if al, ok := v.Bindings[i].(*ssa.Alloc); ok {
							li.Cells[al] = true
						}
					}
				}
			}
		}
		fv.fnEffects(li, fn, c, depth)
	default:
		// dynamic call through a func value
		if spec := fv.functypeSpec(c.Value.Type()); spec != nil {
			fv.specEffects(li, spec, nil, c)
		} else if targets := fv.eng.funcTargets(c.Value.Type()); len(targets) > 0 {
			for _, tg := range targets {
				fv.fnEffects(li, tg.Fn, nil, depth)
			}
		} else {
			li.All = true
		}
	}
}

func (fv *FV) fnEffects(li *LoopInfo, fn *ssa.Function, c *ssa.CallCommon, depth int) {
	spec := fv.eng.specs.Funcs[funcKey(fn)]
	if spec != nil && !spec.Inline {
		fv.specEffects(li, spec, fn, c)
		return
	}
	if fv.canInline(fn) && depth < 4 {
		for _, b := range fn.Blocks {
			for _, in := range b.Instrs {
				// stores to the callee's own locals are irrelevant; heap stores matter
				if s, ok := in.(*ssa.Store); ok {
					if _, isLocal := s.Addr.(*ssa.Alloc); isLocal {
						continue
					}
				}
				fv.loopEffects(li, in, depth+1)
			}
		}
		return
	}
	if !isRepoFunc(fn) {
		return // unmodelled stdlib call: assumed not to write repo heaps
	}
	li.All = true
}

func (fv *FV) specEffects(li *LoopInfo, spec *FuncSpec, fn *ssa.Function, c *ssa.CallCommon) {
	if spec == nil {
		li.All = true
		return
	}
	if spec.AssignsAll {
		li.All = true
		return
	}
	if spec.Fresh {
		li.Alloc = true
	}
	for _, a := range spec.Assigns {
		name, srt, ok := fv.assignHeapStatic(a.E, spec, fn, c)
		if !ok {
			li.All = true
			continue
		}
		for i := range name {
			li.Heaps[name[i]] = srt[i]
		}
	}
}

// assignHeapStatic determines the heap arrays an assigns-target touches, from types only.
func (fv *FV) assignHeapStatic(e Expr, spec *FuncSpec, fn *ssa.Function, c *ssa.CallCommon) ([]string, []string, bool) {
	t := fv.staticTypeOf(e, spec, fn, c)
	switch x := e.(type) {
	case *ESel:
		bt := fv.staticTypeOf(x.X, spec, fn, c)
		if bt == nil {
			return nil, nil, false
		}
		path := findFieldPath(bt, x.Name)
		if path == nil {
			return nil, nil, false
		}
		// walk embedded path; heap is for the last pointer hop
		cur := bt
		for i, idx := range path {
			el, isP := isPtr(cur)
			if !isP {
				el = cur
			}
			st, ok := el.Underlying().(*types.Struct)
			if !ok {
				return nil, nil, false
			}
			if i == len(path)-1 || true {
				if isP {
					if i == len(path)-1 {
						return []string{fieldHeapName(el, idx)}, []string{arraySort(SInt, fv.sortOf(st.Field(idx).Type()))}, true
					}
					// embedded struct by value inside a heap object: whole top-level field heap
					if _, nested := st.Field(idx).Type().Underlying().(*types.Struct); nested {
						return []string{fieldHeapName(el, idx)}, []string{arraySort(SInt, fv.sortOf(st.Field(idx).Type()))}, true
					}
				}
			}
			cur = st.Field(idx).Type()
		}
		return nil, nil, false
	case *ECall:
		if gs := fv.ghostSpec(x.Fn, spec.PkgName); gs != nil {
			rt, err := fv.eng.resolveType(gs.Result, gs.PkgName)
			if err != nil {
				return nil, nil, false
			}
			return []string{ghostHeapName(gs)}, []string{arraySort(SInt, fv.sortOf(rt))}, true
		}
		if x.Fn == "anyobj" && len(x.Args) == 1 {
			// anyobj(T.f): field f of every object of type T
			if sel, ok := x.Args[0].(*ESel); ok {
				tname := ""
				if id, ok := sel.X.(*EIdent); ok {
					tname = id.Name
				} else if q, ok := sel.X.(*ESel); ok {
					if id, ok := q.X.(*EIdent); ok {
						tname = id.Name + "." + q.Name
					}
				}
				if tname != "" {
					if gt, err := fv.eng.resolveType(tname, spec.PkgName); err == nil {
						if path := findFieldPath(gt, sel.Name); len(path) == 1 {
							stt := gt.Underlying().(*types.Struct)
							return []string{fieldHeapName(gt, path[0])}, []string{arraySort(SInt, fv.sortOf(stt.Field(path[0]).Type()))}, true
						}
					}
				}
			}
			return nil, nil, false
		}
		if x.Fn == "mapsof" && len(x.Args) == 1 {
			if s, ok := x.Args[0].(*EStr); ok {
				if gt, err := fv.eng.resolveType(s.V, spec.PkgName); err == nil {
					if m, ok := gt.Underlying().(*types.Map); ok {
						ks, vs := fv.sortOf(m.Key()), fv.sortOf(m.Elem())
						return []string{mapValHeap(ks, vs), mapDomHeap(ks, vs)}, []string{arraySort(SInt, arraySort(ks, vs)), arraySort(SInt, arraySort(ks, SBool))}, true
					}
				}
			}
			return nil, nil, false
		}
		if x.Fn == "contents" && len(x.Args) == 1 {
			mt := fv.staticTypeOf(x.Args[0], spec, fn, c)
			if mt == nil {
				return nil, nil, false
			}
			if m, ok := mt.Underlying().(*types.Map); ok {
				ks, vs := fv.sortOf(m.Key()), fv.sortOf(m.Elem())
				return []string{mapValHeap(ks, vs), mapDomHeap(ks, vs)}, []string{arraySort(SInt, arraySort(ks, vs)), arraySort(SInt, arraySort(ks, SBool))}, true
			}
		}
	case *EIdent:
		// package-level variable
		if p := fv.eng.byName[spec.PkgName]; p != nil && p.Types != nil {
			if v, ok := p.Types.Scope().Lookup(x.Name).(*types.Var); ok {
				return []string{"G_" + smtName(spec.PkgName+"_"+x.Name)}, []string{fv.sortOf(v.Type())}, true
			}
		}
	}
	_ = t
	return nil, nil, false
}

// staticTypeOf: Go type of a simple spec expression (names, selectors) without evaluation.
func (fv *FV) staticTypeOf(e Expr, spec *FuncSpec, fn *ssa.Function, c *ssa.CallCommon) types.Type {
	switch x := e.(type) {
	case *EIdent:
		if fn != nil {
			for _, p := range fn.Params {
				if p.Name() == x.Name {
					return p.Type()
				}
			}
		}
		if c != nil {
			for i, n := range spec.ParamNames {
				if n == x.Name {
					if c.IsInvoke() {
						if i == 0 {
							return c.Value.Type()
						}
						if i-1 < len(c.Args) {
							return c.Args[i-1].Type()
						}
					} else if i < len(c.Args) {
						return c.Args[i].Type()
					}
				}
			}
		}
		if p := fv.eng.byName[spec.PkgName]; p != nil && p.Types != nil {
			if v, ok := p.Types.Scope().Lookup(x.Name).(*types.Var); ok {
				return v.Type()
			}
		}
	case *ESel:
		bt := fv.staticTypeOf(x.X, spec, fn, c)
		if bt == nil {
			return nil
		}
		path := findFieldPath(bt, x.Name)
		cur := bt
		for _, idx := range path {
			if el, ok := isPtr(cur); ok {
				cur = el
			}
			st, ok := cur.Underlying().(*types.Struct)
			if !ok {
				return nil
			}
			cur = st.Field(idx).Type()
		}
		if path == nil {
			return nil
		}
		return cur
	}
	return nil
}

func (fv *FV) isHeapObject(a *ssa.Alloc) bool {
	el := a.Type().(*types.Pointer).Elem()
	if _, ok := el.Underlying().(*types.Struct); ok && a.Heap {
		return true
	}
	return false
}

func (fv *FV) canInline(fn *ssa.Function) bool {
	if fn == nil || len(fn.Blocks) == 0 {
		return false
	}
	if spec := fv.eng.specs.Funcs[funcKey(fn)]; spec != nil && spec.Inline {
		return true
	}
	if fn.Parent() != nil {
		// function literal: inline unless it has loops
		return !hasLoop(fn)
	}
	if !isRepoFunc(fn) {
		return false
	}
	if hasLoop(fn) {
		return false
	}
	n := 0
	for _, b := range fn.Blocks {
		n += len(b.Instrs)
		for _, in := range b.Instrs {
			if c, ok := in.(ssa.CallInstruction); ok {
				if callee := c.Common().StaticCallee(); callee == fn {
					return false
				}
			}
		}
	}
	return n <= 250
}

func hasLoop(fn *ssa.Function) bool {
	for _, b := range fn.Blocks {
		for _, s := range b.Succs {
			if s.Dominates(b) {
				return true
			}
		}
	}
	return false
}

func (fv *FV) ifaceSpec(c *ssa.CallCommon) *FuncSpec {
	// key: pkg.Iface.method for named interfaces
	t := c.Value.Type()
	if n, ok := t.(*types.Named); ok && n.Obj().Pkg() != nil {
		if s := fv.eng.specs.Funcs[n.Obj().Pkg().Name()+"."+n.Obj().Name()+"."+c.Method.Name()]; s != nil {
			return s
		}
		// embedded interfaces: look for the method's declaring interface
	} else if n, ok := t.(*types.Named); ok && n.Obj().Pkg() == nil { // error
		return fv.eng.specs.Funcs[n.Obj().Name()+"."+c.Method.Name()]
	}
	// search all iface specs by method name whose interface is implemented by t
	if it, ok := t.Underlying().(*types.Interface); ok {
		for _, k := range sortedKeys(fv.eng.specs.Funcs) {
			s := fv.eng.specs.Funcs[k]
			if s.Kind != "iface" || !strings.HasSuffix(k, "."+c.Method.Name()) {
				continue
			}
			parts := strings.Split(k, ".")
			if len(parts) != 3 {
				continue
			}
			if gt, err := fv.eng.resolveType(parts[0]+"."+parts[1], ""); err == nil {
				if git, ok := gt.Underlying().(*types.Interface); ok {
					// t embeds git if every method of git is in it
					all := true
					for i := 0; i < git.NumMethods(); i++ {
						found := false
						for j := 0; j < it.NumMethods(); j++ {
							if it.Method(j).Name() == git.Method(i).Name() {
								found = true
							}
						}
						if !found {
							all = false
						}
					}
					if all {
						return s
					}
				}
			}
		}
	}
	return nil
}

func (fv *FV) functypeSpec(t types.Type) *FuncSpec {
	if n, ok := t.(*types.Named); ok && n.Obj().Pkg() != nil {
		return fv.eng.specs.Funcs[n.Obj().Pkg().Name()+"."+n.Obj().Name()]
	}
	if _, ok := t.(*types.Signature); ok {
		want := normSig(typeShort(t))
		for _, k := range sortedKeys(fv.eng.specs.Funcs) {
			s := fv.eng.specs.Funcs[k]
			if s.Kind == "functype" && s.Sig != "" && normSig(s.Sig) == want {
				return s
			}
		}
	}
	return nil
}

func normSig(s string) string { return strings.Join(strings.Fields(s), " ") }

// ---- verification driver ------------------------------------------------

func (fv *FV) Verify() {
	fn := fv.fn
	if len(fn.Blocks) == 0 {
		fv.outsidef("no body")
		return
	}
	fv.analyzeLoops()
	st := &State{cells: map[CellID]SymVal{}, heap: map[string]Term{}, nonnil: map[string]bool{},
		loopsIn: map[*ssa.BasicBlock]*LoopEntry{}, held: map[string]bool{}}
	fr := &Frame{ID: 0, Fn: fn, Regs: map[ssa.Value]SymVal{}, Block: fn.Blocks[0]}
	st.frame = fr
	st.nframe = 1
	// parameters
	for _, p := range fn.Params {
		t := fv.paramConst(st, "p_"+p.Name(), p.Type())
		fr.Regs[p] = tv(t)
	}
	for _, f := range fn.FreeVars {
		// free variables of a closure verified on its own: a cell holding an unknown value
		el := f.Type().(*types.Pointer).Elem()
		id := CellID{Frame: 0, A: f}
		st.cells[id] = tv(fv.paramConst(st, "fv_"+f.Name(), el))
		if fv.freeVarEntry == nil {
			fv.freeVarEntry = map[string]Term{}
		}
		fv.freeVarEntry[f.Name()] = st.cells[id].T
		fr.Regs[f] = SymVal{K: VCellPtr, Cell: id, Root: el}
	}
	if fn.Signature.Recv() != nil && len(fn.Params) > 0 {
		if _, ok := fn.Params[0].Type().Underlying().(*types.Pointer); ok {
			r := fr.Regs[fn.Params[0]].T
			st.assume(tNot(tEq(r, mkInt(0))))
			st.nonnil[r.S] = true
		}
	}
	st.assume(app(SBool, ">", fv.nextOf(st.heap, st.epoch), mkInt(0)))
	var errs []string
	if fv.spec != nil {
		env := fv.entryEnv(st, &errs)
		for _, c := range fv.spec.Requires {
			st.assume(env.Eval(c.E))
		}
	}
	if len(errs) > 0 {
		fv.outsidef("contract error: %s", strings.Join(errs, "; "))
		return
	}
	// ghost variables start unbound (an arbitrary value); they are bound when their anchor call returns
	if fv.spec != nil {
		for _, g := range fv.spec.GhostAt {
			var proto Term
			if id, ok := g.Clause.E.(*EIdent); ok && (id.Name == "callresult" || id.Name == "callresult1") {
				ri := 0
				if id.Name == "callresult1" {
					ri = 1
				}
				for k, f := range fv.eng.funcs {
					if lastPart(k) == g.Callee && funcPkgName(f) == funcPkgName(fv.fn) && f.Signature.Results().Len() > ri {
						t := f.Signature.Results().At(ri).Type()
						proto = Term{Sort: fv.sortOf(t), T: t}
						break
					}
				}
				if proto.Sort == "" {
					// callee outside the repository (or an interface method): take the result type from a call site
					if t := calleeResultType(fv.fn, g.Callee, ri); t != nil {
						proto = Term{Sort: fv.sortOf(t), T: t}
					}
				}
			} else {
				var gerrs []string
				proto = fv.entryEnv(st, &gerrs).Eval(g.Clause.E)
			}
			if proto.Sort == "" {
				fv.outsidef("ghost %s: cannot determine its sort", g.Name)
				continue
			}
			if st.ghosts == nil {
				st.ghosts = map[string]Term{}
			}
			st.ghosts[g.Name] = fv.freshConst(st, "ghost_unbound_"+g.Name, proto.Sort, proto.T)
		}
	}
	fv.entryScript = st.script
	if fv.spec != nil {
		fv.readonlyCheck(st)
	}
	if fv.spec != nil {
		// after the vacuity guard's snapshot: a failed table obligation makes the rest of the path moot,
		// which must not be mistaken for contradictory entry assumptions
		for _, ct := range fv.spec.Tables {
			fv.constTable(st, ct)
		}
	}
	fv.run(st)
}

func (fv *FV) paramConst(st *State, name string, t types.Type) Term {
	srt := fv.sortOf(t)
	c := fv.freshConst(st, name, srt, t)
	fv.typeAssume(st, c, t)
	return c
}

// typeAssume adds the invariants every value of a Go type satisfies.
func (fv *FV) typeAssume(st *State, c Term, t types.Type) {
	switch u := t.Underlying().(type) {
	case *types.Basic:
		switch u.Kind() {
		case types.Uint8:
			st.assume(Term{S: fmt.Sprintf("(and (<= 0 %s) (<= %s 255))", c.S, c.S), Sort: SBool})
		case types.Int, types.Int64:
			if fv.wrap {
				st.assume(Term{S: fmt.Sprintf("(and (<= (- 9223372036854775808) %s) (<= %s 9223372036854775807))", c.S, c.S), Sort: SBool})
			}
		case types.Uint, types.Uint16, types.Uint32, types.Uint64:
			st.assume(Term{S: fmt.Sprintf("(<= 0 %s)", c.S), Sort: SBool})
		}
	case *types.Pointer, *types.Map:
		st.assume(fv.isAlloc(st.heap, st.epoch, c))
		fv.assumeTypeInv(st, c, t)
	case *types.Slice:
		st.assume(Term{S: fmt.Sprintf("(>= (%s_len %s) 0)", c.Sort, c.S), Sort: SBool})
	case *types.Interface:
		if c.Sort == SVal {
			// a pointer held in an interface value denotes an allocated object
			fv.kindUsed = true
			fv.decls.Add(1, "pv_kind", "(declare-fun pv_kind (Int) Int)\n(declare-fun pv_telem (Int) Int)\n(declare-fun pv_tkey (Int) Int)\n(assert (= (pv_kind 0) 0))")
			nx := fv.nextOf(st.heap, st.epoch)
			st.assume(Term{S: fmt.Sprintf("(=> (= (pv_kind (pv_tid %s)) 22) (and (<= 0 (pv_pay %s)) (< (pv_pay %s) %s)))", c.S, c.S, c.S, nx.S), Sort: SBool})
		}
	}
}

func (fv *FV) entryEnv(st *State, errs *[]string) *Env {
	vars := map[string]Term{}
	for _, p := range fv.fn.Params {
		vars[p.Name()] = st.frameRoot().Regs[p].T
	}
	for _, f := range fv.fn.FreeVars {
		vars[f.Name()] = st.cells[CellID{Frame: 0, A: f}].T
	}
	pn := ""
	if fv.spec != nil {
		pn = fv.spec.PkgName
	}
	return &Env{fv: fv, st: st, heap: st.heap, epoch: st.epoch, vars: vars, pkgName: pn, err: errs}
}

func (st *State) frameRoot() *Frame {
	f := st.frame
	for f.Caller != nil {
		f = f.Caller
	}
	return f
}

// run explores all paths depth-first.
func (fv *FV) run(st0 *State) {
	work := []*State{st0}
	for len(work) > 0 {
		st := work[len(work)-1]
		work = work[:len(work)-1]
		fv.paths++
		if fv.paths > maxPaths {
			fv.outsidef("path cap exceeded (%d)", maxPaths)
			return
		}
		for st != nil {
			var forks []*State
			cur := st
			st, forks = fv.step(st)
			work = append(work, forks...)
			if len(fv.pendingForks) > 0 {
				work = append(work, fv.pendingForks...)
				fv.pendingForks = nil
			}
			if st == nil {
				fv.leaves = append(fv.leaves, cur.script)
			}
		}
	}
}

// addObl registers an obligation and leaves a marker in the path script (used for batched solving).
func (fv *FV) addObl(st *State, o *Obligation) {
	o.id = len(fv.obls)
	fv.obls = append(fv.obls, o)
	st.emit(fmt.Sprintf(";;OBL %d", o.id))
}

// calleeResultType: result type ri of the first call in this function whose callee is named name.
func calleeResultType(fn *ssa.Function, name string, ri int) types.Type {
	if fn == nil {
		return nil
	}
	for _, b := range fn.Blocks {
		for _, in := range b.Instrs {
			ci, ok := in.(ssa.CallInstruction)
			if !ok {
				continue
			}
			c := ci.Common()
			n := ""
			if c.IsInvoke() {
				n = c.Method.Name()
			} else if f := c.StaticCallee(); f != nil {
				n = f.Name()
			} else if _, isB := c.Value.(*ssa.Builtin); !isB && functypeNames[name] {
				n = name // a call through a function value, for a name that is a functype contract
			}
			if n != name {
				continue
			}
			rs := c.Signature().Results()
			if ri < rs.Len() {
				return rs.At(ri).Type()
			}
		}
	}
	return nil
}

// functypeNames: last parts of the keys of functype contracts (filled when the specs are loaded)
var functypeNames = map[string]bool{}

// constTable: `consttable VAR: K => V, ...`. Decided by constant evaluation of the real source: the
// package-level variable VAR of the function's package is initialised by a map composite literal whose
// keys and values are constants; it must contain exactly the listed entries (one obligation per entry,
// one for the size) and no function of the package may write to it (one obligation). When all of this
// holds the entries are assumed in the function's entry state.
func (fv *FV) constTable(st *State, ct ConstTable) {
	pkg := fv.eng.byName[fv.pkgName()]
	pos := fv.fn.Pos()
	fail := func(detail, why string) {
		fv.oblige(st, "table", ct.Var+":"+detail, pos, tFalse, why)
	}
	if pkg == nil {
		fail("found", "package not loaded")
		return
	}
	// locate the initialiser
	var lit *ast.CompositeLit
	for _, f := range pkg.Syntax {
		for _, d := range f.Decls {
			gd, ok := d.(*ast.GenDecl)
			if !ok || gd.Tok != token.VAR {
				continue
			}
			for _, sp := range gd.Specs {
				vs := sp.(*ast.ValueSpec)
				for i, n := range vs.Names {
					if n.Name == ct.Var && i < len(vs.Values) {
						if cl, ok := vs.Values[i].(*ast.CompositeLit); ok {
							lit = cl
						}
					}
				}
			}
		}
	}
	if lit == nil {
		fail("found", "package-level variable "+ct.Var+" with a composite-literal initialiser not found")
		return
	}
	fv.oblige(st, "table", ct.Var+":found", pos, tTrue, "the table is a package-level composite literal")
	type entry struct{ k, v Term }
	var have []entry
	allConst := true
	for _, el := range lit.Elts {
		kv, ok := el.(*ast.KeyValueExpr)
		if !ok {
			allConst = false
			continue
		}
		ktv, vtv := pkg.TypesInfo.Types[kv.Key], pkg.TypesInfo.Types[kv.Value]
		if ktv.Value == nil || vtv.Value == nil {
			allConst = false
			continue
		}
		have = append(have, entry{fv.constTerm(ktv.Value, ktv.Type), fv.constTerm(vtv.Value, vtv.Type)})
	}
	if !allConst {
		fail("const", "every key and value of the literal must be a constant")
		return
	}
	var errs []string
	env := fv.entryEnv(st, &errs)
	ok := true
	var want []entry
	for i := range ct.Keys {
		k, v := env.Eval(ct.Keys[i].E), env.Eval(ct.Vals[i].E)
		want = append(want, entry{k, v})
		found := false
		for _, h := range have {
			if h.k.S == k.S && h.v.S == v.S {
				found = true
			}
		}
		goal := tTrue
		if !found {
			goal = tFalse
			ok = false
		}
		fv.oblige(st, "table", ct.Var+":"+ct.Keys[i].Text, pos, goal, ct.Var+"["+ct.Keys[i].Text+"] == "+ct.Vals[i].Text+" in the literal")
	}
	goal := tTrue
	if len(have) != len(want) {
		goal = tFalse
		ok = false
	}
	fv.oblige(st, "table", ct.Var+":size", pos, goal, fmt.Sprintf("the literal has exactly the %d listed entries (it has %d)", len(want), len(have)))
	// never written outside its initialiser
	ro := true
	for _, f := range fv.eng.funcs {
		if f == nil || funcPkgName(f) != fv.pkgName() {
			continue
		}
		for _, b := range f.Blocks {
			for _, in := range b.Instrs {
				switch x := in.(type) {
				case *ssa.MapUpdate:
					if ld, isLd := x.Map.(*ssa.UnOp); isLd {
						if g, isG := ld.X.(*ssa.Global); isG && g.Name() == ct.Var && f.Name() != "init" {
							ro = false
						}
					}
				case *ssa.Store:
					if g, isG := x.Addr.(*ssa.Global); isG && g.Name() == ct.Var && f.Name() != "init" {
						ro = false
					}
				}
			}
		}
	}
	goal = tTrue
	if !ro {
		goal = tFalse
		ok = false
	}
	fv.oblige(st, "table", ct.Var+":readonly", pos, goal, "no function of the package writes to "+ct.Var)
	fv.reportErrs(errs)
	if !ok {
		return
	}
	// the facts, in the entry state
	gt, found := env.pkgObject(fv.pkgName(), ct.Var)
	if !found {
		return
	}
	mt, isMap := gt.T.Underlying().(*types.Map)
	if !isMap {
		return
	}
	ks, vs := fv.sortOf(mt.Key()), fv.sortOf(mt.Elem())
	dh := fv.heapGet(st.heap, st.epoch, mapDomHeap(ks, vs), arraySort(SInt, arraySort(ks, SBool)))
	vh := fv.heapGet(st.heap, st.epoch, mapValHeap(ks, vs), arraySort(SInt, arraySort(ks, vs)))
	st.assume(tNot(tEq(gt, mkInt(0))))
	for _, w := range want {
		st.assume(tSelect(tSelect(dh, gt, arraySort(ks, SBool)), w.k, SBool))
		st.assume(tEq(tSelect(tSelect(vh, gt, arraySort(ks, vs)), w.k, vs), w.v))
	}
	// and nothing else is in the table
	q := "k_tbl"
	var alts []string
	for _, w := range want {
		alts = append(alts, "(= "+q+" "+w.k.S+")")
	}
	st.assume(Term{S: fmt.Sprintf("(forall ((%s %s)) (=> (select (select %s %s) %s) (or %s)))", q, ks, dh.S, gt.S, q, strings.Join(alts, " ")), Sort: SBool})
	fv.assume("consttable " + ct.Var + ": the table's entries are read from the source by constant evaluation (go/types), not derived by symbolic execution of the package initialiser")
}

// readonlyCheck: `readonly NAME` - the function never writes through its map / slice parameter NAME
// (no element store, no delete, and the value is not stored anywhere a later write could reach it from:
// it may only be read, ranged over, indexed and passed on to callees, whose own contracts speak for
// them). Decided on the SSA of the function (and of its closures); one obligation per parameter.
func (fv *FV) readonlyCheck(st *State) {
	for _, name := range fv.spec.Readonly {
		var par *ssa.Parameter
		for _, p := range fv.fn.Params {
			if p.Name() == name {
				par = p
			}
		}
		ok := par != nil
		why := "parameter not found"
		if par != nil {
			why = ""
			// values that denote the parameter: the parameter itself and loads from the local cell it is
			// spilled to in naive SSA form
			cells := map[ssa.Value]bool{}
			for _, b := range fv.fn.Blocks {
				for _, in := range b.Instrs {
					if s, isS := in.(*ssa.Store); isS && s.Val == par {
						cells[s.Addr] = true
					}
				}
			}
			isPar := func(v ssa.Value) bool {
				if v == par {
					return true
				}
				if u, isU := v.(*ssa.UnOp); isU && u.Op == token.MUL && cells[u.X] {
					return true
				}
				return false
			}
			for _, b := range fv.fn.Blocks {
				for _, in := range b.Instrs {
					switch x := in.(type) {
					case *ssa.MapUpdate:
						if isPar(x.Map) {
							ok, why = false, "element assignment at "+fv.eng.pos(x.Pos())
						}
					case *ssa.IndexAddr:
						if isPar(x.X) {
							// an element address: only allowed as the operand of a load
							for _, r := range *x.Referrers() {
								if st2, isSt := r.(*ssa.Store); isSt && st2.Addr == x {
									ok, why = false, "element store at "+fv.eng.pos(st2.Pos())
								}
							}
						}
					case *ssa.Call:
						if bi, isB := x.Call.Value.(*ssa.Builtin); isB && (bi.Name() == "delete" || bi.Name() == "clear") && len(x.Call.Args) > 0 && isPar(x.Call.Args[0]) {
							ok, why = false, bi.Name()+" at "+fv.eng.pos(x.Pos())
						}
					}
				}
			}
		}
		goal := tTrue
		if !ok {
			goal = tFalse
		}
		fv.oblige(st, "owned", "readonly:"+name, fv.fn.Pos(), goal, "the function never writes through its parameter "+name+" ("+why+")")
	}
}
