package main

import (
	"bytes"
	"context"
	"fmt"
	"os"
	"os/exec"
	"path/filepath"
	"sort"
	"strings"
	"sync"
	"time"

)


// query builds the SMT-LIB text for an obligation.
func (fv *FV) query(o *Obligation, forCVC5 bool) string {
	var sb strings.Builder
	sb.WriteString("(set-option :produce-models true)\n")
	if forCVC5 {
		sb.WriteString("(set-logic ALL)\n")
	}
	sb.WriteString(preludeBase)
	fv.decls.Print(&sb)
	sb.WriteString(fv.typeFacts())
	sb.WriteString(fv.axiomText())
	for _, l := range o.script.lines() {
		if strings.HasPrefix(l, ";;OBL") {
			continue
		}
		sb.WriteString(l)
		sb.WriteByte('\n')
	}
	fmt.Fprintf(&sb, "(assert (not %s))\n(check-sat)\n", o.goal.S)
	if len(o.Values) > 0 {
		sb.WriteString("(get-value (")
		for _, v := range o.Values {
			sb.WriteString(v.S)
			sb.WriteByte(' ')
		}
		sb.WriteString("))\n")
	}
	return sb.String()
}

// axiomText evaluates the axioms that mention a spec function used by this function.
func (fv *FV) axiomText() string {
	if fv.axiomCache != "" || fv.axiomDone {
		return fv.axiomCache
	}
	fv.axiomDone = true
	var sb strings.Builder
	// iterate to a fixpoint: axioms may introduce further spec functions
	done := map[*AxiomSpec]bool{}
	for changed := true; changed; {
		changed = false
		for _, ax := range fv.eng.specs.Axioms {
			if done[ax] {
				continue
			}
			if !fv.mentionsUsed(ax.Clause.E) && mentionsAnySpec(fv.eng.specs, ax.Clause.E) {
				continue
			}
			if !mentionsAnySpec(fv.eng.specs, ax.Clause.E) && ax.PkgName != "" && ax.PkgName != funcPkgName(fv.fn) {
				continue
			}
			done[ax] = true
			changed = true
			var errs []string
			env := &Env{fv: fv, heap: map[string]Term{}, vars: map[string]Term{}, pkgName: ax.PkgName, err: &errs}
			before := len(fv.decls.order)
			t := env.Eval(ax.Clause.E)
			if len(errs) > 0 {
				fv.outsidef("axiom error: %s", strings.Join(errs, "; "))
				continue
			}
			// declarations introduced while evaluating the axiom are printed by decls (they were added)
			_ = before
			fmt.Fprintf(&sb, "(assert %s)\n", t.S)
		}
	}
	fv.axiomCache = sb.String()
	return fv.axiomCache
}

func (fv *FV) mentionsUsed(e Expr) bool {
	found := false
	var walk func(Expr)
	walk = func(e Expr) {
		switch x := e.(type) {
		case *ECall:
			if fv.usedSpecFns[x.Fn] {
				found = true
			}
			for _, a := range x.Args {
				walk(a)
			}
		case *EBin:
			walk(x.L)
			walk(x.R)
		case *EUn:
			walk(x.X)
		case *ESel:
			walk(x.X)
		case *EIndex:
			walk(x.X)
			walk(x.I)
		case *ESlice:
			walk(x.X)
			if x.Lo != nil {
				walk(x.Lo)
			}
			if x.Hi != nil {
				walk(x.Hi)
			}
		case *EQuant:
			walk(x.Body)
		}
	}
	walk(e)
	return found
}

type solverSpec struct {
	name string
	args []string
	cvc5 bool
}

var solvers = []solverSpec{
	{name: "z3-new", args: []string{"-smt2", "-in"}},
	{name: "z3", args: []string{"-smt2", "-in"}},
	{name: "cvc5", args: []string{"--lang=smt2", "--full-saturate-quant", "--produce-models"}, cvc5: true},
}

type solveResult struct {
	status string
	solver string
	secs   float64
	out    string
}

func runSolver(ctx context.Context, s solverSpec, q string, timeout time.Duration) solveResult {
	cctx, cancel := context.WithTimeout(ctx, timeout)
	defer cancel()
	args := append([]string(nil), s.args...)
	if s.cvc5 {
		args = append(args, fmt.Sprintf("--tlimit=%d", timeout.Milliseconds()))
	} else {
		args = append(args, fmt.Sprintf("-T:%d", int(timeout.Seconds())+1))
	}
	cmd := exec.CommandContext(cctx, s.name, args...)
	cmd.Stdin = strings.NewReader(q)
	var out bytes.Buffer
	cmd.Stdout = &out
	cmd.Stderr = &out
	t0 := time.Now()
	_ = cmd.Run()
	secs := time.Since(t0).Seconds()
	text := out.String()
	first := strings.TrimSpace(strings.SplitN(text, "\n", 2)[0])
	st := "unknown"
	switch first {
	case "unsat", "sat":
		st = first
	case "timeout":
		st = "timeout"
	default:
		if cctx.Err() != nil {
			st = "timeout"
		} else if strings.Contains(first, "error") || strings.Contains(text, "(error") {
			st = "error"
		}
	}
	return solveResult{status: st, solver: s.name, secs: secs, out: text}
}

// discharge runs one obligation: race the solvers, first definite answer wins.
func (fv *FV) discharge(o *Obligation, timeout time.Duration, all bool) {
	if o.goal.S == "false" && false {
		return
	}
	ctx, cancel := context.WithCancel(context.Background())
	defer cancel()
	q := fv.query(o, false)
	qc := fv.query(o, true)
	o.SMTLen = len(q)
	if !all {
		// stage 1: the fastest solver alone, short budget
		short := 3 * time.Second
		if timeout < short {
			short = timeout
		}
		r := runSolver(ctx, solvers[0], q, short)
		o.Secs += r.secs
		if r.status == "unsat" || r.status == "sat" {
			o.Status, o.Solver = r.status, r.solver
			if r.status == "sat" {
				o.Model = truncate(r.out, 4000)
			}
			return
		}
	}
	ch := make(chan solveResult, len(solvers))
	for _, s := range solvers {
		s := s
		go func() {
			if s.cvc5 {
				ch <- runSolver(ctx, s, qc, timeout)
			} else {
				ch <- runSolver(ctx, s, q, timeout)
			}
		}()
	}
	var results []solveResult
	for range solvers {
		r := <-ch
		results = append(results, r)
		if !all && (r.status == "unsat" || r.status == "sat") {
			// a lone "sat" from a solver with quantifiers may be spurious only if the model is partial; accept
			break
		}
	}
	cancel()
	best := solveResult{status: "unknown"}
	sawSat, sawUnsat := false, false
	for _, r := range results {
		o.Secs += r.secs
		switch r.status {
		case "unsat":
			sawUnsat = true
			if best.status != "unsat" {
				best = r
			}
		case "sat":
			sawSat = true
			if best.status != "unsat" && best.status != "sat" {
				best = r
			}
		case "timeout":
			if best.status == "unknown" {
				best.status = "timeout"
				best.solver = r.solver
			}
		case "error":
			if best.status == "unknown" || best.status == "timeout" {
				best.status = "error"
				best.out = r.out
				best.solver = r.solver
			}
		}
	}
	if sawSat && sawUnsat {
		o.Status = "disagree"
		o.Solver = "multiple"
		return
	}
	o.Status = best.status
	o.Solver = best.solver
	if best.status == "sat" || best.status == "unknown" || best.status == "error" {
		o.Model = truncate(best.out, 4000)
	}
	if o.Status != "unsat" && o.Status != "sat" && o.Status != "error" {
		// candidate counterexample: drop quantified assumptions (weaker hypotheses), ask for a model
		g := groundQuery(q)
		r := runSolver(context.Background(), solvers[0], g, 5*time.Second)
		if r.status == "sat" {
			o.Candidate = true
			o.Ground = g
			o.Model = truncate(r.out, 4000)
		}
	}
}

// groundQuery removes quantified assumptions (keeps the negated goal, which is the last assert).
func groundQuery(q string) string {
	lines := strings.Split(q, "\n")
	var out []string
	lastAssert := -1
	for i, l := range lines {
		if strings.HasPrefix(l, "(assert ") {
			lastAssert = i
		}
	}
	var strs []string
	for i, l := range lines {
		if i != lastAssert && strings.HasPrefix(l, "(assert ") && (strings.Contains(l, "(forall ") || strings.Contains(l, "(exists ")) {
			continue
		}
		if strings.HasPrefix(l, "(declare-const ") && strings.HasSuffix(strings.TrimSpace(strings.SplitN(l, ";", 2)[0]), " pv_Str)") {
			f := strings.Fields(l)
			strs = append(strs, f[1])
		}
		if i == lastAssert {
			for _, s := range strs {
				out = append(out, fmt.Sprintf("(assert (and (>= (pv_len %s) 0) (<= (pv_len %s) 40)))", s, s))
			}
		}
		out = append(out, l)
	}
	return strings.Join(out, "\n")
}

func dischargeAll(fvs []*FV, filter func(*Obligation) bool, timeout time.Duration, all bool, workers int) {
	type job struct {
		fv *FV
		o  *Obligation
	}
	var jobs []job
	for _, fv := range fvs {
		for _, o := range fv.obls {
			if len(fv.outside) > 0 {
				o.Status = "outside"
				continue
			}
			if o.Solver == "syntactic" {
				continue
			}
			if filter == nil || filter(o) {
				jobs = append(jobs, job{fv, o})
			}
		}
	}
	// pre-render axiom text and type facts serially (not goroutine-safe; type ids are
	// allocated while rendering, so iterate until the id table is stable)
	for _, fv := range fvs {
		fv.axiomText()
	}
	for {
		n := 0
		if len(fvs) > 0 {
			n = len(fvs[0].eng.tidT)
		}
		for _, fv := range fvs {
			fv.typeFactsDone = false
			fv.typeFactsCache = fv.typeFactsCompute()
			fv.typeFactsDone = true
		}
		if len(fvs) == 0 || len(fvs[0].eng.tidT) == n {
			break
		}
	}
	// phase 0: vacuity guard - the entry assumptions (prelude, axioms, type invariants, requires)
	// of every function must not be refutable
	{
		var vwg sync.WaitGroup
		sem := make(chan struct{}, workers)
		for _, fv := range fvs {
			if len(fv.outside) > 0 || fv.entryScript == nil {
				continue
			}
			fv := fv
			vwg.Add(1)
			sem <- struct{}{}
			go func() {
				defer vwg.Done()
				defer func() { <-sem }()
				o := &Obligation{script: fv.entryScript, goal: tFalse}
				r := runSolver(context.Background(), solvers[0], fv.query(o, false), 2*time.Second)
				if r.status == "unsat" {
					fv.vacuous = true
				}
				r2 := runSolver(context.Background(), solvers[2], fv.query(o, true), 3*time.Second)
				if r2.status == "unsat" {
					fv.vacuous = true
				}
			}()
		}
		vwg.Wait()
		for _, fv := range fvs {
			if fv.vacuous {
				fv.outsidef("VACUOUS: the entry assumptions of %s are contradictory", fv.short)
				for _, o := range fv.obls {
					o.Status = "outside"
				}
			}
		}
		var keep []job
		for _, j := range jobs {
			if !j.fv.vacuous {
				keep = append(keep, j)
			}
		}
		jobs = keep
	}
	// phase 1: batched incremental solving, one solver process per path leaf
	if !all {
		batchSolve(fvs, filter, workers)
		var rest []job
		for _, j := range jobs {
			if j.o.Status != "unsat" {
				rest = append(rest, j)
			}
		}
		jobs = rest
	}
	var failedNames sync.Map
	// one instance per name first, so that a failing name is detected early
	sort.SliceStable(jobs, func(a, b int) bool { return false })
	seenName := map[string]int{}
	var first, later []job
	for _, j := range jobs {
		if seenName[j.o.Name] == 0 {
			first = append(first, j)
		} else {
			later = append(later, j)
		}
		seenName[j.o.Name]++
	}
	jobs = append(first, later...)
	var wg sync.WaitGroup
	ch := make(chan job)
	for i := 0; i < workers; i++ {
		wg.Add(1)
		go func() {
			defer wg.Done()
			for j := range ch {
				if _, bad := failedNames.Load(j.o.Name); bad && !all {
					j.o.Status = "skipped"
					continue
				}
				j.fv.discharge(j.o, timeout, all)
				if j.o.Status != "unsat" {
					failedNames.Store(j.o.Name, true)
				}
			}
		}()
	}
	for _, j := range jobs {
		ch <- j
	}
	close(ch)
	wg.Wait()
}

// nameObligations assigns stable names: func#kind:detail@k, k = ordinal of the static
// program point among points with the same (kind, detail), in source order.
func (fv *FV) nameObligations() {
	type key struct{ kind, detail string }
	points := map[key][]string{}
	for _, o := range fv.obls {
		k := key{o.Kind, o.Detail}
		found := false
		for _, p := range points[k] {
			if p == o.PosStr {
				found = true
			}
		}
		if !found {
			points[k] = append(points[k], o.PosStr)
		}
	}
	ord := map[key]map[string]int{}
	for k, ps := range points {
		sort.Slice(ps, func(i, j int) bool { return posLess(ps[i], ps[j]) })
		ord[k] = map[string]int{}
		for i, p := range ps {
			ord[k][p] = i + 1
		}
	}
	for _, o := range fv.obls {
		k := key{o.Kind, o.Detail}
		name := fv.short + "#" + o.Kind
		if o.Detail != "" {
			name += ":" + o.Detail
		}
		if o.Kind != "post" && o.Kind != "inv-entry" && o.Kind != "inv-pres" {
			name += fmt.Sprintf("@%d", ord[k][o.PosStr])
		}
		o.Name = name
	}
}

func posLess(a, b string) bool {
	fa, la := splitPos(a)
	fb, lb := splitPos(b)
	if fa != fb {
		return fa < fb
	}
	return la < lb
}

func splitPos(p string) (string, int) {
	i := strings.LastIndex(p, ":")
	if i < 0 {
		return p, 0
	}
	n := 0
	fmt.Sscanf(p[i+1:], "%d", &n)
	return p[:i], n
}

func dumpQuery(dir string, fv *FV, o *Obligation, idx int) string {
	os.MkdirAll(dir, 0o755)
	p := filepath.Join(dir, fmt.Sprintf("%s_%d.smt2", smtName(o.Name), idx))
	os.WriteFile(p, []byte(fv.query(o, false)), 0o644)
	return p
}


// batchSolve: for every path leaf, one incremental z3 run that checks the obligations first
// encountered on that path. Only "unsat" answers are kept; everything else is re-run individually.
func batchSolve(fvs []*FV, filter func(*Obligation) bool, workers int) {
	type batch struct {
		fv   *FV
		text string
		ids  []int
	}
	var batches []batch
	for _, fv := range fvs {
		if len(fv.outside) > 0 || fv.vacuous {
			continue
		}
		assigned := map[int]bool{}
		var head strings.Builder
		head.WriteString(preludeBase)
		fv.decls.Print(&head)
		head.WriteString(fv.typeFacts())
		head.WriteString(fv.axiomText())
		hs := head.String()
		for _, leaf := range fv.leaves {
			var sb strings.Builder
			var ids []int
			for _, l := range leaf.lines() {
				if strings.HasPrefix(l, ";;OBL ") {
					id := 0
					fmt.Sscanf(l, ";;OBL %d", &id)
					if assigned[id] {
						continue
					}
					assigned[id] = true
					o := fv.obls[id]
					if filter != nil && !filter(o) {
						continue
					}
					ids = append(ids, id)
					fmt.Fprintf(&sb, "(push 1)\n(assert (not %s))\n(check-sat)\n(pop 1)\n", o.goal.S)
					continue
				}
				sb.WriteString(l)
				sb.WriteByte('\n')
			}
			if len(ids) > 0 {
				batches = append(batches, batch{fv: fv, text: hs + sb.String(), ids: ids})
			}
		}
	}
	var wg sync.WaitGroup
	ch := make(chan batch)
	for i := 0; i < workers; i++ {
		wg.Add(1)
		go func() {
			defer wg.Done()
			for b := range ch {
				budget := time.Duration(2+len(b.ids)) * time.Second
				ctx, cancel := context.WithTimeout(context.Background(), budget)
				cmd := exec.CommandContext(ctx, "z3-new", "-smt2", "-in", "-t:1500")
				cmd.Stdin = strings.NewReader(b.text)
				var out bytes.Buffer
				cmd.Stdout = &out
				t0 := time.Now()
				_ = cmd.Run()
				cancel()
				secs := time.Since(t0).Seconds()
				var answers []string
				for _, l := range strings.Split(out.String(), "\n") {
					l = strings.TrimSpace(l)
					if l == "sat" || l == "unsat" || l == "unknown" || l == "timeout" {
						answers = append(answers, l)
					} else if strings.HasPrefix(l, "(error") {
						// an error poisons the rest of this batch
						break
					}
				}
				for i, id := range b.ids {
					o := b.fv.obls[id]
					o.Secs += secs / float64(len(b.ids))
					if i < len(answers) && answers[i] == "unsat" {
						o.Status = "unsat"
						o.Solver = "z3-new(batch)"
						o.SMTLen = len(b.text)
					}
				}
			}
		}()
	}
	for _, b := range batches {
		ch <- b
	}
	close(ch)
	wg.Wait()
}

func mentionsAnySpec(sp *Specs, e Expr) bool {
	found := false
	var walk func(Expr)
	walk = func(e Expr) {
		switch x := e.(type) {
		case *ECall:
			if ps := sp.Preds[x.Fn]; ps != nil && ps.Body == nil {
				found = true
			}
			for _, a := range x.Args {
				walk(a)
			}
		case *EBin:
			walk(x.L)
			walk(x.R)
		case *EUn:
			walk(x.X)
		case *ESel:
			walk(x.X)
		case *EIndex:
			walk(x.X)
			walk(x.I)
		case *EQuant:
			walk(x.Body)
		}
	}
	walk(e)
	return found
}
