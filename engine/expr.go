package main

// Spec expression language: lexer + Pratt parser.
//
//   e ::= lit | ident | pkg.ident | e.f | e[i] | e[i:j] | f(e,...) | old(e)
//       | !e | -e | e op e | forall x T, y U :: e | exists x T :: e
//   op: <==> (1) ==> (2, right) || (3) && (4) == != < <= > >= (5) + - (6) * / % (7)

import (
	"fmt"
	"strconv"
	"strings"
)

type Expr interface{}

type (
	EIdent struct{ Name string }
	EInt   struct{ V int64 }
	EStr   struct{ V string }
	EBool  struct{ V bool }
	ENil   struct{}
	EBin   struct {
		Op   string
		L, R Expr
	}
	EUn struct {
		Op string
		X  Expr
	}
	ECall struct {
		Fn   string
		Args []Expr
	}
	ESel struct {
		X    Expr
		Name string
	}
	EIndex struct{ X, I Expr }
	ESlice struct{ X, Lo, Hi Expr }
	EQuant struct {
		Forall bool
		Vars   []VarDecl
		Body   Expr
	}
)

type VarDecl struct {
	Name string
	Type string // Go type text
}

type tok struct {
	k string // "id","int","str","char","op","eof"
	s string
	i int64
}

type exprLexer struct {
	src  string
	pos  int
	toks []tok
}

func lexExpr(src string) ([]tok, error) {
	var out []tok
	i := 0
	n := len(src)
	for i < n {
		c := src[i]
		switch {
		case c == ' ' || c == '\t' || c == '\n':
			i++
		case c >= '0' && c <= '9':
			j := i
			for j < n && (src[j] >= '0' && src[j] <= '9' || src[j] == 'x' || (src[j] >= 'a' && src[j] <= 'f') || (src[j] >= 'A' && src[j] <= 'F')) {
				j++
			}
			v, err := strconv.ParseInt(src[i:j], 0, 64)
			if err != nil {
				return nil, fmt.Errorf("bad int %q", src[i:j])
			}
			out = append(out, tok{k: "int", i: v, s: src[i:j]})
			i = j
		case c == '_' || (c >= 'a' && c <= 'z') || (c >= 'A' && c <= 'Z') || c == '$':
			j := i
			for j < n && (src[j] == '_' || src[j] == '$' || (src[j] >= 'a' && src[j] <= 'z') || (src[j] >= 'A' && src[j] <= 'Z') || (src[j] >= '0' && src[j] <= '9')) {
				j++
			}
			out = append(out, tok{k: "id", s: src[i:j]})
			i = j
		case c == '"' || c == '`':
			j := i + 1
			for j < n && src[j] != c {
				if src[j] == '\\' && c == '"' {
					j++
				}
				j++
			}
			if j >= n {
				return nil, fmt.Errorf("unterminated string")
			}
			s, err := strconv.Unquote(src[i : j+1])
			if err != nil {
				return nil, fmt.Errorf("bad string %s: %v", src[i:j+1], err)
			}
			out = append(out, tok{k: "str", s: s})
			i = j + 1
		case c == '\'':
			j := i + 1
			for j < n && src[j] != '\'' {
				if src[j] == '\\' {
					j++
				}
				j++
			}
			if j >= n {
				return nil, fmt.Errorf("unterminated char")
			}
			r, _, _, err := strconv.UnquoteChar(src[i+1:j], '\'')
			if err != nil {
				return nil, fmt.Errorf("bad char %s", src[i:j+1])
			}
			out = append(out, tok{k: "int", i: int64(r), s: src[i : j+1]})
			i = j + 1
		default:
			ops := []string{"<==>", "==>", "::", "==", "!=", "<=", ">=", "&&", "||", "+", "-", "*", "/", "%", "<", ">", "!", "(", ")", "[", "]", ",", ".", ":", "{", "}"}
			matched := false
			for _, op := range ops {
				if strings.HasPrefix(src[i:], op) {
					out = append(out, tok{k: "op", s: op})
					i += len(op)
					matched = true
					break
				}
			}
			if !matched {
				return nil, fmt.Errorf("unexpected character %q at %d in %q", c, i, src)
			}
		}
	}
	out = append(out, tok{k: "eof"})
	return out, nil
}

type exprParser struct {
	toks []tok
	p    int
	src  string
}

func ParseExpr(src string) (e Expr, err error) {
	toks, err := lexExpr(src)
	if err != nil {
		return nil, err
	}
	ps := &exprParser{toks: toks, src: src}
	defer func() {
		if r := recover(); r != nil {
			if s, ok := r.(parseErr); ok {
				err = fmt.Errorf("%s in %q", string(s), src)
				return
			}
			panic(r)
		}
	}()
	e = ps.parse(0)
	if ps.cur().k != "eof" {
		ps.fail("trailing tokens at %q", ps.cur().s)
	}
	return e, nil
}

type parseErr string

func (ps *exprParser) fail(f string, a ...interface{}) { panic(parseErr(fmt.Sprintf(f, a...))) }
func (ps *exprParser) cur() tok                          { return ps.toks[ps.p] }
func (ps *exprParser) next() tok                         { t := ps.toks[ps.p]; ps.p++; return t }
func (ps *exprParser) isOp(s string) bool                { t := ps.cur(); return t.k == "op" && t.s == s }
func (ps *exprParser) expect(s string) {
	if !ps.isOp(s) {
		ps.fail("expected %q got %q", s, ps.cur().s)
	}
	ps.p++
}

var binPrec = map[string]int{
	"<==>": 1, "==>": 2, "||": 3, "&&": 4,
	"==": 5, "!=": 5, "<": 5, "<=": 5, ">": 5, ">=": 5,
	"+": 6, "-": 6, "*": 7, "/": 7, "%": 7,
}

func (ps *exprParser) parse(minPrec int) Expr {
	left := ps.unary()
	for {
		t := ps.cur()
		if t.k != "op" {
			break
		}
		pr, ok := binPrec[t.s]
		if !ok || pr < minPrec {
			break
		}
		ps.p++
		var right Expr
		if t.s == "==>" {
			right = ps.parse(pr) // right assoc
		} else {
			right = ps.parse(pr + 1)
		}
		left = &EBin{Op: t.s, L: left, R: right}
	}
	return left
}

func (ps *exprParser) unary() Expr {
	t := ps.cur()
	if t.k == "op" && (t.s == "!" || t.s == "-") {
		ps.p++
		x := ps.unary()
		if t.s == "-" {
			if i, ok := x.(*EInt); ok {
				return &EInt{V: -i.V}
			}
		}
		return &EUn{Op: t.s, X: x}
	}
	if t.k == "id" && (t.s == "forall" || t.s == "exists") {
		ps.p++
		q := &EQuant{Forall: t.s == "forall"}
		for {
			name := ps.next()
			if name.k != "id" {
				ps.fail("quantifier: expected variable name")
			}
			typ := ps.typeText()
			q.Vars = append(q.Vars, VarDecl{Name: name.s, Type: typ})
			if ps.isOp(",") {
				ps.p++
				continue
			}
			break
		}
		ps.expect("::")
		q.Body = ps.parse(0)
		return q
	}
	return ps.postfix(ps.primary())
}

// typeText reads a Go type up to ',' '::' or ')' at depth 0.
func (ps *exprParser) typeText() string {
	var sb strings.Builder
	depth := 0
	for {
		t := ps.cur()
		if t.k == "eof" {
			break
		}
		if t.k == "op" {
			if depth == 0 && (t.s == "," || t.s == "::" || t.s == ")") {
				break
			}
			if t.s == "(" || t.s == "[" || t.s == "{" {
				depth++
			}
			if t.s == ")" || t.s == "]" || t.s == "}" {
				depth--
			}
		}
		if t.k == "id" && sb.Len() > 0 {
			last := sb.String()[sb.Len()-1]
			if last != '.' && last != '*' && last != ']' && last != '[' {
				sb.WriteByte(' ')
			}
		}
		sb.WriteString(t.s)
		ps.p++
	}
	return sb.String()
}

func (ps *exprParser) primary() Expr {
	t := ps.next()
	switch t.k {
	case "int":
		return &EInt{V: t.i}
	case "str":
		return &EStr{V: t.s}
	case "id":
		switch t.s {
		case "true":
			return &EBool{V: true}
		case "false":
			return &EBool{V: false}
		case "nil":
			return &ENil{}
		}
		return &EIdent{Name: t.s}
	case "op":
		if t.s == "(" {
			e := ps.parse(0)
			ps.expect(")")
			return e
		}
	}
	ps.fail("unexpected token %q", t.s)
	return nil
}

func (ps *exprParser) postfix(e Expr) Expr {
	for {
		switch {
		case ps.isOp("."):
			ps.p++
			n := ps.next()
			if n.k != "id" {
				ps.fail("expected field name after '.'")
			}
			e = &ESel{X: e, Name: n.s}
		case ps.isOp("("):
			ps.p++
			var args []Expr
			for !ps.isOp(")") {
				args = append(args, ps.parse(0))
				if ps.isOp(",") {
					ps.p++
				} else {
					break
				}
			}
			ps.expect(")")
			name := ""
			switch f := e.(type) {
			case *EIdent:
				name = f.Name
			case *ESel:
				if id, ok := f.X.(*EIdent); ok {
					name = id.Name + "." + f.Name
				}
			}
			if name == "" {
				ps.fail("call of non-name")
			}
			e = &ECall{Fn: name, Args: args}
		case ps.isOp("["):
			ps.p++
			var lo Expr
			if !ps.isOp(":") {
				lo = ps.parse(0)
			}
			if ps.isOp(":") {
				ps.p++
				var hi Expr
				if !ps.isOp("]") {
					hi = ps.parse(0)
				}
				ps.expect("]")
				e = &ESlice{X: e, Lo: lo, Hi: hi}
			} else {
				ps.expect("]")
				e = &EIndex{X: e, I: lo}
			}
		default:
			return e
		}
	}
}

func exprString(e Expr) string {
	switch x := e.(type) {
	case *EIdent:
		return x.Name
	case *EInt:
		return fmt.Sprint(x.V)
	case *EStr:
		return strconv.Quote(x.V)
	case *EBool:
		return fmt.Sprint(x.V)
	case *ENil:
		return "nil"
	case *EBin:
		return "(" + exprString(x.L) + " " + x.Op + " " + exprString(x.R) + ")"
	case *EUn:
		return x.Op + exprString(x.X)
	case *ECall:
		var a []string
		for _, y := range x.Args {
			a = append(a, exprString(y))
		}
		return x.Fn + "(" + strings.Join(a, ", ") + ")"
	case *ESel:
		return exprString(x.X) + "." + x.Name
	case *EIndex:
		return exprString(x.X) + "[" + exprString(x.I) + "]"
	case *ESlice:
		lo, hi := "", ""
		if x.Lo != nil {
			lo = exprString(x.Lo)
		}
		if x.Hi != nil {
			hi = exprString(x.Hi)
		}
		return exprString(x.X) + "[" + lo + ":" + hi + "]"
	case *EQuant:
		q := "exists"
		if x.Forall {
			q = "forall"
		}
		var vs []string
		for _, v := range x.Vars {
			vs = append(vs, v.Name+" "+v.Type)
		}
		return "(" + q + " " + strings.Join(vs, ", ") + " :: " + exprString(x.Body) + ")"
	}
	return "?"
}

// exprChildren: the direct sub-expressions of e.
func exprChildren(e Expr) []Expr {
	switch x := e.(type) {
	case *EBin:
		return []Expr{x.L, x.R}
	case *EUn:
		return []Expr{x.X}
	case *ECall:
		return x.Args
	case *ESel:
		return []Expr{x.X}
	case *EIndex:
		return []Expr{x.X, x.I}
	case *ESlice:
		var out []Expr
		for _, c := range []Expr{x.X, x.Lo, x.Hi} {
			if c != nil {
				out = append(out, c)
			}
		}
		return out
	case *EQuant:
		return []Expr{x.Body}
	}
	return nil
}
