package main

import (
	"bufio"
	"encoding/json"
	"fmt"
	"os"
	"path/filepath"
	"regexp"
	"runtime"
	"sort"
	"strings"
	"time"
)

type PropConfig struct {
	Funcs       []string `json:"funcs"`       // regexes over contract keys to verify
	Select      []string `json:"select"`      // regexes over obligation names that belong to the property
	Level       string   `json:"level"`       // proof | other
	Assumptions []string `json:"assumptions"` // property-level assumptions (residuals)
	Bounded     []string `json:"bounded"`     // names of bounded stand-ins (run by the check script)
	Explanation string   `json:"explanation"`
	// obligation names (regex) that no contract can license because the property itself forbids the effect
	// (a store into the parsed program during execution): a failure is a violation also when the
	// obligation belongs to code that did not exist on the unchanged tree
	Forbidden string `json:"forbidden"`
	// the property speaks about state that outlives one execution: a function of the cone that reads a
	// package-level variable it did not read on the unchanged tree (and that no contract mentions) is
	// handed to the replay corpus even when none of its obligations fails
	StateCone bool `json:"state_cone"`
}

type Ledger struct {
	Property    string   `json:"property"`
	Obligations []string `json:"obligations"`
	// calls without a contract (result unconstrained, heap havocked) that each function already made on
	// the unchanged tree; a call of this kind that appears later is new code the contracts do not cover
	Unmodelled map[string][]string `json:"unmodelled,omitempty"`
	// package-level variables each function already read on the unchanged tree
	Globals map[string][]string `json:"globals_read,omitempty"`
}

type KnownFinding struct {
	Kind       string `json:"kind"` // known | fixed
	Property   string `json:"property"`
	Obligation string `json:"obligation"`
	Witness    string `json:"witness"`
	What       string `json:"what"`
	Commit     string `json:"commit,omitempty"`
}

type oblGroup struct {
	Name      string
	Instances []*Obligation
	FV        *FV
}

func (g *oblGroup) status() string {
	worst := "unsat"
	for _, o := range g.Instances {
		switch o.Status {
		case "unsat", "skipped":
		case "sat":
			return "sat"
		case "error":
			return "error"
		case "disagree":
			return "disagree"
		default:
			worst = o.Status
		}
	}
	return worst
}

func loadKnown(path string) []KnownFinding {
	var out []KnownFinding
	f, err := os.Open(path)
	if err != nil {
		return nil
	}
	defer f.Close()
	sc := bufio.NewScanner(f)
	sc.Buffer(make([]byte, 1<<20), 1<<20)
	for sc.Scan() {
		l := strings.TrimSpace(sc.Text())
		if l == "" || strings.HasPrefix(l, "#") {
			continue
		}
		var k KnownFinding
		if json.Unmarshal([]byte(l), &k) == nil {
			out = append(out, k)
		}
	}
	return out
}

func runProperty(eng *Engine, verifDir, prop, tier string, updateLedger, verbose bool, dump string, t0 time.Time) int {
	cfgAll := map[string]*PropConfig{}
	b, err := os.ReadFile(filepath.Join(verifDir, "props.json"))
	if err != nil {
		fmt.Fprintln(os.Stderr, "props.json:", err)
		return 2
	}
	if err := json.Unmarshal(b, &cfgAll); err != nil {
		fmt.Fprintln(os.Stderr, "props.json:", err)
		return 2
	}
	cfg := cfgAll[prop]
	if cfg == nil {
		fmt.Fprintf(os.Stderr, "property %s not configured\n", prop)
		return 2
	}
	var fre, sre []*regexp.Regexp
	for _, f := range cfg.Funcs {
		fre = append(fre, regexp.MustCompile(f))
	}
	for _, s := range cfg.Select {
		sre = append(sre, regexp.MustCompile(s))
	}
	matchAny := func(res []*regexp.Regexp, s string) bool {
		for _, r := range res {
			if r.MatchString(s) {
				return true
			}
		}
		return false
	}
	timeout := 10 * time.Second
	all := false
	if tier == "thorough" {
		timeout = 60 * time.Second
		all = true
	}
	seed := 0
	fmt.Sscanf(os.Getenv("VERIF_SEED"), "%d", &seed)

	// 1. verify functions in the cone
	var fvs []*FV
	var unbound []string
	var keys []string
	for k := range eng.specs.Funcs {
		keys = append(keys, k)
	}
	sort.Strings(keys)
	for _, k := range keys {
		spec := eng.specs.Funcs[k]
		if spec.Kind != "func" || spec.Trusted || !matchAny(fre, k) {
			continue
		}
		fn := eng.funcs[k]
		if fn == nil || len(fn.Blocks) == 0 {
			unbound = append(unbound, k)
			continue
		}
		fv := NewFV(eng, fn, spec)
		fv.Verify()
		fv.nameObligations()
		fvs = append(fvs, fv)
	}
	// Support closure: an obligation of a function is discharged under that function's loop invariants
	// and under the postconditions of the calls it makes, which hold only if their preconditions do.
	// So the invariant and call-precondition obligations of every function that contributes a selected
	// obligation belong to the property as well (otherwise a change that breaks an invariant's
	// establishment leaves the selected clause "proved" from an assumption that no longer holds).
	supportFuncs := map[string]bool{}
	for _, fv := range fvs {
		for _, o := range fv.obls {
			if matchAny(sre, o.Name) {
				supportFuncs[fv.short] = true
				break
			}
		}
	}
	sel := func(o *Obligation) bool {
		if matchAny(sre, o.Name) {
			return true
		}
		if supportFuncs[o.Func] && (o.Kind == "inv-entry" || o.Kind == "inv-pres" || o.Kind == "pre") {
			return true
		}
		return false
	}
	dischargeAll(fvs, sel, timeout, all, runtime.NumCPU())
	retryInconclusive(fvs, sel, timeout)

	for _, fv := range fvs {
		if fv.vacuous {
			fmt.Printf("ENGINE-FAULT contradictory assumptions in %s (vacuity guard)\n", fv.short)
			return 2
		}
	}
	// 2. group
	groups := map[string]*oblGroup{}
	outsideFuncs := map[string][]string{}
	for _, fv := range fvs {
		if len(fv.outside) > 0 {
			outsideFuncs[fv.short] = fv.outside
		}
		for _, o := range fv.obls {
			if !sel(o) {
				continue
			}
			g := groups[o.Name]
			if g == nil {
				g = &oblGroup{Name: o.Name, FV: fv}
				groups[o.Name] = g
			}
			g.Instances = append(g.Instances, o)
		}
	}
	var names []string
	for n := range groups {
		names = append(names, n)
	}
	sort.Strings(names)

	ledgerPath := filepath.Join(verifDir, "ledger", prop+".json")
	var ledger Ledger
	if lb, err := os.ReadFile(ledgerPath); err == nil {
		json.Unmarshal(lb, &ledger)
	}
	inLedger := map[string]bool{}
	for _, n := range ledger.Obligations {
		inLedger[n] = true
	}
	known := loadKnown(filepath.Join(verifDir, "known_findings.jsonl"))
	knownFor := func(name string) *KnownFinding {
		for i := range known {
			if known[i].Kind == "known" && known[i].Property == prop && known[i].Obligation == name {
				return &known[i]
			}
		}
		return nil
	}

	if updateLedger {
		var ok []string
		for _, n := range names {
			g := groups[n]
			if g.status() == "unsat" && len(outsideFuncs[g.FV.short]) == 0 {
				ok = append(ok, n)
			}
		}
		os.MkdirAll(filepath.Dir(ledgerPath), 0o755)
		um := map[string][]string{}
		for _, fv := range fvs {
			if len(fv.unmodelled) > 0 {
				um[fv.short] = sortedKeys(fv.unmodelled)
			}
		}
		ledger.Unmodelled = um
		gl := map[string][]string{}
		for _, fv := range fvs {
			if len(fv.globalsRead) > 0 {
				gl[fv.short] = sortedKeys(fv.globalsRead)
			}
		}
		ledger.Globals = gl
		lb, _ := json.MarshalIndent(Ledger{Property: prop, Obligations: ok, Unmodelled: um, Globals: gl}, "", " ")
		os.WriteFile(ledgerPath, append(lb, '\n'), 0o644)
		fmt.Printf("ledger %s: %d obligations\n", ledgerPath, len(ok))
		inLedger = map[string]bool{}
		for _, n := range ok {
			inLedger[n] = true
		}
		ledger.Obligations = ok
	}

	// 3. classify
	violations := 0
	var otherKnownNames []string
	discharged := 0
	var undecided, newFailed, knownLines []string
	solverCount := map[string]int{}
	solverSecs := 0.0
	var samples []map[string]interface{}
	var violationLines []string
	var forbiddenRe *regexp.Regexp
	if cfg.Forbidden != "" {
		forbiddenRe = regexp.MustCompile(cfg.Forbidden)
	}
	forbidden := func(n string) bool { return forbiddenRe != nil && forbiddenRe.MatchString(n) }
	if cfg.StateCone {
		for _, fv := range fvs {
			if !matchAny(fre, fv.short) {
				continue
			}
			wasRead := map[string]bool{}
			for _, k := range ledger.Globals[fv.short] {
				wasRead[k] = true
			}
			for _, gname := range sortedKeys(fv.globalsRead) {
				if !wasRead[gname] && !eng.specMentions(gname) {
					undecided = append(undecided, fmt.Sprintf("%s#state:%s (%s reads the package-level variable %s, which it did not read on the unchanged tree and no contract mentions: state that may outlive an execution)", fv.short, gname, fv.short, gname))
				}
			}
		}
	}
	for _, n := range names {
		g := groups[n]
		st := g.status()
		for _, o := range g.Instances {
			solverCount[o.Solver]++
			solverSecs += o.Secs
		}
		if len(outsideFuncs[g.FV.short]) > 0 {
			undecided = append(undecided, fmt.Sprintf("%s (function outside verifier subset: %s)", n, outsideFuncs[g.FV.short][0]))
			continue
		}
		if st != "unsat" {
			// a package-level variable that the function did not read on the unchanged tree and that no contract speaks about: its
			// value is opaque to the verifier, failures of the function that reads it say "needs a
			// contract", not "is wrong"
			var opaque []string
			wasRead := map[string]bool{}
			for _, k := range ledger.Globals[g.FV.short] {
				wasRead[k] = true
			}
			for _, gname := range sortedKeys(g.FV.globalsRead) {
				if !wasRead[gname] && !eng.specMentions(gname) {
					opaque = append(opaque, gname)
				}
			}
			if len(opaque) > 0 {
				undecided = append(undecided, fmt.Sprintf("%s (%s reads the package-level variable %s, which no contract mentions)", n, g.FV.short, opaque[0]))
				continue
			}
		}
		if st != "unsat" {
			// a library call without an assumed contract that the function did not make on the unchanged
			// tree: new code outside the contracts' reach
			known := map[string]bool{}
			for _, k := range ledger.Unmodelled[g.FV.short] {
				known[k] = true
			}
			var fresh []string
			for _, k := range sortedKeys(g.FV.unmodelled) {
				if !known[k] {
					fresh = append(fresh, k)
				}
			}
			if len(fresh) > 0 && len(g.FV.uncontracted) == 0 && !forbidden(n) {
				undecided = append(undecided, fmt.Sprintf("%s (%s now calls %s, for which there is no contract)", n, g.FV.short, fresh[0]))
				continue
			}
		}
		// (a store into the forbidden frame - the parsed program, for C13/C14 - is reported whatever else
		// the function does: the store instruction is there)
		if st != "unsat" && len(g.FV.uncontracted) > 0 && !forbidden(n) {
			// the function calls a repository function that has no contract and cannot be inlined (new
			// helper with a loop): its body was not followed, the obligations after the call were checked
			// against an arbitrary heap. A failure here says "needs a contract", not "is wrong": undecided,
			// handed to the replay corpus below.
			undecided = append(undecided, fmt.Sprintf("%s (%s calls %s, a repository function without contract that cannot be inlined)", n, g.FV.short, sortedKeys(g.FV.uncontracted)[0]))
			continue
		}
		if st == "unsat" {
			discharged++
			if len(samples) < 6 {
				o := g.Instances[0]
				samples = append(samples, map[string]interface{}{"obligation": n, "at": o.PosStr, "clause": o.Clause, "paths": len(g.Instances), "smt_bytes": o.SMTLen, "solver": o.Solver})
			}
			continue
		}
		if st == "error" {
			msg := ""
			for _, o := range g.Instances {
				if o.Status == "error" {
					msg = truncate(o.Model, 300)
				}
			}
			fmt.Printf("ENGINE-FAULT solver rejected the query for %s: %s\n", n, strings.ReplaceAll(msg, "\n", " "))
			return 2
		}
		if st == "disagree" {
			fmt.Printf("ENGINE-FAULT solvers disagree on %s\n", n)
			return 2
		}
		if otherKnown(known, prop, n) {
			// recorded as a known finding of another property: reported there, not counted here
			otherKnownNames = append(otherKnownNames, n)
			continue
		}
		if kf := knownFor(n); kf != nil {
			knownLines = append(knownLines, fmt.Sprintf("KNOWN-FINDING: property=%s obligation=%s witness=%q %s", prop, n, kf.Witness, kf.What))
			continue
		}
		cand := false
		for _, o := range g.Instances {
			if o.Candidate {
				cand = true
			}
		}
		// in the ledger: a violation in any case. New obligation (code that did not exist on the
		// unchanged tree): a violation only if the solver refutes it (sat) or it fails with a candidate
		// model AND the replay harness reproduces a failure on the real code.
		if inLedger[n] || st == "sat" || cand || forbidden(n) {
			// violation: replay
			rp := writeReplay(eng, verifDir, prop, g, dump)
			line := fmt.Sprintf("VIOLATION property=%s replay=%s", prop, rp.Path)
			if !rp.Reproduced {
				if !inLedger[n] && !forbidden(n) {
					// a new obligation that only fails without a confirmed input: not an alarm
					newFailed = append(newFailed, fmt.Sprintf("%s (%s, unconfirmed)", n, st))
					continue
				}
				line += " no-failing-input-found"
			}
			violationLines = append(violationLines, line+"  # obligation="+n)
			violations++
			continue
		}
		newFailed = append(newFailed, fmt.Sprintf("%s (%s)", n, st))
	}
	for _, n := range ledger.Obligations {
		if groups[n] == nil {
			undecided = append(undecided, n+" (contract unbound or program point gone)")
		}
	}
	for _, u := range unbound {
		undecided = append(undecided, u+" (contract names a function that does not exist)")
	}
	// Obligations that could not be decided deductively (a contract that no longer binds to the code, a
	// function that left the verifier's subset, or an obligation of code that did not exist on the
	// unchanged tree): the replay corpus decides - a panic, a hang or a material difference from HEAD
	// on the real code is reported as the violation, with the input; otherwise they stay undecided.
	{
		byFam := map[string][]string{}
		for _, u := range undecided {
			n := strings.SplitN(u, " ", 2)[0]
			byFam[replayFamily(n)] = append(byFam[replayFamily(n)], u)
		}
		for _, u := range newFailed {
			n := strings.SplitN(u, " ", 2)[0]
			byFam[replayFamily(n)] = append(byFam[replayFamily(n)], u)
		}
		for _, fam := range sortedKeys(byFam) {
			us := byFam[fam]
			first := strings.SplitN(us[0], " ", 2)[0]
			rec := map[string]interface{}{
				"property":              prop,
				"obligation":            first,
				"undecided_obligations": us,
				"note":                  "these obligations could not be decided deductively on this tree; the verdict comes from replaying the corpus on the real code against HEAD",
			}
			if tryReplayName(eng, verifDir, first, rec, true) {
				dir := filepath.Join(verifDir, "replays", prop)
				os.MkdirAll(dir, 0o755)
				path := filepath.Join(dir, "undecided_"+fam+".json")
				rec["reproduced_on_real_code"] = true
				b, _ := json.MarshalIndent(rec, "", " ")
				os.WriteFile(path, append(b, '\n'), 0o644)
				violationLines = append(violationLines, fmt.Sprintf("VIOLATION property=%s replay=%s  # undecided obligation=%s (+%d more) decided by replay on the real code", prop, path, first, len(us)-1))
				violations++
			}
		}
	}
	for _, u := range undecided {
		fmt.Printf("UNDECIDED obligation=%s\n", u)
	}
	for _, u := range newFailed {
		fmt.Printf("NOT-IN-LEDGER undischarged obligation=%s\n", u)
	}
	for _, k := range knownLines {
		fmt.Println(k)
	}
	for _, v := range violationLines {
		fmt.Println(v)
	}
	if verbose {
		for _, n := range names {
			fmt.Printf("  %-8s %s\n", groups[n].status(), n)
		}
	}

	// 4. evidence
	var funcsUnder []string
	unm := map[string]bool{}
	inl := map[string]bool{}
	byContract := map[string]bool{}
	assume := map[string]bool{}
	for _, fv := range fvs {
		funcsUnder = append(funcsUnder, fv.short)
		for k := range fv.unmodelled {
			unm[k] = true
		}
		for k := range fv.inlined {
			inl[k] = true
		}
		for k := range fv.calleesByContract {
			byContract[k] = true
		}
		for k := range fv.assumptions {
			assume[k] = true
		}
	}
	var assumedContracts []string
	for k := range byContract {
		if s := eng.specs.Funcs[k]; s != nil && s.Trusted {
			assumedContracts = append(assumedContracts, k)
		}
	}
	sort.Strings(assumedContracts)
	level := cfg.Level
	if level == "" {
		level = "proof"
	}
	assumptions := []string{
		"T1: x/tools go/packages + go/ssa v0.29.0 (naive form) lower the Go source faithfully",
		"T2: plushvc's SSA-to-SMT semantics (guarded by the must-fail selftest corpus)",
		"T4: z3 5.1.0 / z3 4.8.12 / cvc5 1.0.3 are sound",
		"A1: int arithmetic is mathematical (no overflow obligations) except in functions marked 'arith wrap'",
		"A3: strings are an uninterpreted sort with length/byte/substring/concat axioms",
		"A4: slices are values (array,len); no aliasing through in-place element stores",
		"implicit precondition: pointer receivers of repo methods are non-nil (checked at repo call sites)",
	}
	for _, a := range cfg.Assumptions {
		assumptions = append(assumptions, a)
	}
	for _, a := range sortedKeys(assume) {
		assumptions = append(assumptions, a)
	}
	for _, a := range assumedContracts {
		assumptions = append(assumptions, "T3 assumed contract (trusted/external): "+a)
	}
	for _, a := range sortedKeys(unm) {
		assumptions = append(assumptions, "unmodelled call (result unconstrained, heap havocked): "+a)
	}
	total := len(names)
	coverage := map[string]interface{}{
		// obligations behind recorded known findings are reported separately (known_findings), not as claimed obligations
		"obligations":           total - len(knownLines) - len(undecided) - len(otherKnownNames),
		"known_findings_of_other_properties": otherKnownNames,
		"discharged":            discharged,
		"checker_cmd":           fmt.Sprintf("/verif/bin/plushvc -repo %s -prop %s -tier %s", eng.repo, prop, tier),
		"trusted_base":          []string{"golang.org/x/tools v0.29.0 go/ssa", "plushvc VC generator (/verif/engine)", "z3-new 5.1.0", "z3 4.8.12", "cvc5 1.0.3", "/verif/stdlib/*.spec assumed contracts"},
		"functions_under_contract": funcsUnder,
		"functions_inlined":     sortedKeys(inl),
		"query_instances":       countInstances(groups),
		"solver_answers":        solverCount,
		"solver_seconds":        round2(solverSecs),
		"undecided":             undecided,
		"not_in_ledger_undischarged": newFailed,
		"known_findings":        knownLines,
		"bounded":               cfg.Bounded,
		"samples":               samples,
		"explanation":           cfg.Explanation,
		"ledger_size":           len(ledger.Obligations),
		"evaluations":           countInstances(groups),
		"distinct_nontrivial":   total,
		"rule":                  "one evaluation = one (obligation, path) SMT query; distinct = distinct named obligations generated from /repo's current source",
	}
	ev := map[string]interface{}{
		"property_id": prop,
		"tier":        tier,
		"seed":        seed,
		"level":       level,
		"coverage":    coverage,
		"assumptions": assumptions,
		"wall_s":      round2(time.Since(t0).Seconds()),
		"violations":  violations,
	}
	os.MkdirAll(filepath.Join(verifDir, "evidence"), 0o755)
	eb, _ := json.MarshalIndent(ev, "", " ")
	os.WriteFile(filepath.Join(verifDir, "evidence", prop+".json"), append(eb, '\n'), 0o644)
	fmt.Printf("property %s: %d obligations, %d discharged, %d undecided, %d known findings, %d known under another property, %d new unconfirmed, %d violations, %.1fs\n",
		prop, total, discharged, len(undecided), len(knownLines), len(otherKnownNames), len(newFailed), violations, time.Since(t0).Seconds())
	if total == 0 {
		fmt.Println("ENGINE-FAULT zero obligations generated (vacuous check)")
		return 2
	}
	if violations > 0 {
		return 1
	}
	return 0
}

func countInstances(groups map[string]*oblGroup) int {
	n := 0
	for _, g := range groups {
		n += len(g.Instances)
	}
	return n
}

func round2(f float64) float64 { return float64(int(f*100+0.5)) / 100 }

type replayResult struct {
	Path       string
	Reproduced bool
}

// writeReplay records a failed obligation; replay harnesses (replay.go) try to
// reproduce it on the real code.
func writeReplay(eng *Engine, verifDir, prop string, g *oblGroup, dump string) replayResult {
	dir := filepath.Join(verifDir, "replays", prop)
	os.MkdirAll(dir, 0o755)
	path := filepath.Join(dir, smtName(g.Name)+".json")
	var inst []map[string]interface{}
	for _, o := range g.Instances {
		if o.Status == "unsat" {
			continue
		}
		inst = append(inst, map[string]interface{}{"path": o.Path, "at": o.PosStr, "status": o.Status, "solver": o.Solver, "solver_output": o.Model})
	}
	rec := map[string]interface{}{
		"property":   prop,
		"obligation": g.Name,
		"function":   g.FV.short,
		"clause":     g.Instances[0].Clause,
		"instances":  inst,
	}
	rr := replayResult{Path: path}
	repro := tryReplay(eng, verifDir, prop, g, rec)
	rr.Reproduced = repro
	rec["reproduced_on_real_code"] = repro
	b, _ := json.MarshalIndent(rec, "", " ")
	os.WriteFile(path, append(b, '\n'), 0o644)
	return rr
}

func otherKnown(known []KnownFinding, prop, name string) bool {
	for _, k := range known {
		if k.Kind == "known" && k.Property != prop && k.Obligation == name {
			return true
		}
	}
	return false
}

// retryInconclusive: a timeout is not a refutation. Obligations that ended without a definite answer
// (timeout / unknown, and the instances skipped because a sibling had timed out) are run once more, a
// few at a time and with four times the budget, so that a loaded machine does not turn a provable
// obligation into an alarm. Definite answers (sat, error, disagree) are left alone.
func retryInconclusive(fvs []*FV, sel func(*Obligation) bool, timeout time.Duration) {
	type job struct {
		fv *FV
		o  *Obligation
	}
	definite := map[string]bool{}
	for _, fv := range fvs {
		for _, o := range fv.obls {
			if sel(o) && (o.Status == "sat" || o.Status == "error" || o.Status == "disagree") {
				definite[o.Name] = true
			}
		}
	}
	var jobs []job
	perName := map[string]int{}
	for _, fv := range fvs {
		if len(fv.outside) > 0 {
			continue
		}
		for _, o := range fv.obls {
			if !sel(o) || o.Solver == "syntactic" || definite[o.Name] {
				continue
			}
			if o.Status == "timeout" || o.Status == "unknown" {
				// at most two instances per obligation name: if they stay inconclusive the name does
				if perName[o.Name] < 2 {
					perName[o.Name]++
					jobs = append(jobs, job{fv, o})
				}
			}
		}
	}
	if len(jobs) == 0 || len(jobs) > 600 {
		return
	}
	workers := runtime.NumCPU() / 4
	if workers < 2 {
		workers = 2
	}
	ch := make(chan job)
	done := make(chan bool)
	for w := 0; w < workers; w++ {
		go func() {
			for j := range ch {
				j.o.Status, j.o.Solver, j.o.Candidate = "", "", false
				j.fv.discharge(j.o, 4*timeout, false)
				j.o.Solver += "(retry)"
			}
			done <- true
		}()
	}
	for _, j := range jobs {
		ch <- j
	}
	close(ch)
	for w := 0; w < workers; w++ {
		<-done
	}
	// names whose retried instances are now all discharged: their skipped siblings were never run
	bad := map[string]bool{}
	retried := map[string]bool{}
	for _, j := range jobs {
		retried[j.o.Name] = true
		if j.o.Status != "unsat" {
			bad[j.o.Name] = true
		}
	}
	var rest []job
	for _, fv := range fvs {
		for _, o := range fv.obls {
			if sel(o) && retried[o.Name] && !bad[o.Name] && (o.Status == "skipped" || o.Status == "timeout" || o.Status == "unknown") {
				rest = append(rest, job{fv, o})
			}
		}
	}
	if len(rest) == 0 {
		return
	}
	ch2 := make(chan job)
	done2 := make(chan bool)
	w2 := runtime.NumCPU() / 2
	if w2 < 2 {
		w2 = 2
	}
	for w := 0; w < w2; w++ {
		go func() {
			for j := range ch2 {
				j.o.Status, j.o.Solver, j.o.Candidate = "", "", false
				j.fv.discharge(j.o, 2*timeout, false)
				j.o.Solver += "(retry)"
			}
			done2 <- true
		}()
	}
	for _, j := range rest {
		ch2 <- j
	}
	close(ch2)
	for w := 0; w < w2; w++ {
		<-done2
	}
}
