package main

import "time"

func runProperty(eng *Engine, verifDir, prop, tier string, updateLedger, verbose bool, dump string, t0 time.Time) int {
	return 2
}
