package main

import (
	"fmt"
	"go/types"
	"strings"
)

func tidOf(v Term) Term { return Term{S: "(pv_tid " + v.S + ")", Sort: SInt} }
func payOf(v Term) Term { return Term{S: "(pv_pay " + v.S + ")", Sort: SInt} }

func (fv *FV) boxFns(sort string) (string, string) {
	b, u := "pv_box_"+smtName(sort), "pv_unbox_"+smtName(sort)
	fv.decls.Add(1, b, fmt.Sprintf("(declare-fun %s (%s) Int)\n(declare-fun %s (Int) %s)\n(assert (forall ((x %s)) (! (= (%s (%s x)) x) :pattern ((%s x)))))", b, sort, u, sort, sort, u, b, b))
	return b, u
}

// box converts a value of static Go type t to an interface value.
func (fv *FV) box(a Term, t types.Type) Term {
	if _, ok := t.Underlying().(*types.Interface); ok {
		if a.Sort == SInt {
			// reflect.Type (modelled as a type id) stored in an interface
			return Term{S: fmt.Sprintf("(pv_mkval (ite (= %s 0) 0 %d) %s)", a.S, fv.eng.tid(t), a.S), Sort: SVal}
		}
		return a
	}
	if b, ok := t.(*types.Basic); ok && b.Kind() == types.UntypedNil {
		return Term{S: "(pv_mkval 0 0)", Sort: SVal}
	}
	id := fv.eng.tid(t)
	var pay string
	switch a.Sort {
	case SInt:
		pay = a.S
	case SBool:
		pay = "(ite " + a.S + " 1 0)"
	case SStr:
		pay = "(pv_boxstr " + a.S + ")"
	default:
		b, _ := fv.boxFns(a.Sort)
		pay = "(" + b + " " + a.S + ")"
	}
	return Term{S: fmt.Sprintf("(pv_mkval %d %s)", id, pay), Sort: SVal}
}

func (fv *FV) unbox(v Term, t types.Type) Term {
	if _, ok := t.Underlying().(*types.Interface); ok {
		return v
	}
	s := fv.sortOf(t)
	var r Term
	switch s {
	case SInt:
		r = Term{S: "(pv_pay " + v.S + ")", Sort: SInt}
	case SBool:
		r = Term{S: "(= (pv_pay " + v.S + ") 1)", Sort: SBool}
	case SStr:
		r = Term{S: "(pv_unboxstr (pv_pay " + v.S + "))", Sort: SStr}
	default:
		_, u := fv.boxFns(s)
		r = Term{S: "(" + u + " (pv_pay " + v.S + "))", Sort: s}
	}
	r.T = t
	return r
}

// hasType: dynamic type test (type switch / assertion).
func (fv *FV) hasType(v Term, t types.Type) Term {
	if it, ok := t.Underlying().(*types.Interface); ok {
		if it.NumMethods() == 0 {
			return Term{S: "(not (= (pv_tid " + v.S + ") 0))", Sort: SBool}
		}
		name := "pv_impl_" + smtName(typeShort(t))
		fv.decls.Add(1, name, fmt.Sprintf("(declare-fun %s (Int) Bool)\n(assert (not (%s 0)))", name, name))
		fv.implUsed[name] = t
		return Term{S: "(" + name + " (pv_tid " + v.S + "))", Sort: SBool}
	}
	return Term{S: fmt.Sprintf("(= (pv_tid %s) %d)", v.S, fv.eng.tid(t)), Sort: SBool}
}

// typeFacts is emitted at print time: implements-facts and kinds for all known type ids.
func (fv *FV) typeFacts() string {
	if fv.typeFactsDone {
		return fv.typeFactsCache
	}
	return fv.typeFactsCompute()
}

func (fv *FV) typeFactsCompute() string {
	var sb strings.Builder
	if fv.usesEvalPhase {
		if funcPkgName(fv.fn) == "parser" {
			sb.WriteString("(assert (not pv_evalphase))\n")
		} else {
			sb.WriteString("(assert pv_evalphase)\n")
			fv.assume("U4: ASTs handed to the evaluator come from error-free parses and satisfy the evalphase() halves of the AST invariants (established by the parser only on error-free runs; not proved)")
		}
	}
	for _, name := range sortedKeys(fv.implUsed) {
		it := fv.implUsed[name].Underlying().(*types.Interface)
		for id, t := range fv.eng.tidT {
			if t == nil {
				continue
			}
			if types.Implements(t, it) {
				fmt.Fprintf(&sb, "(assert (%s %d))\n", name, id)
			} else {
				fmt.Fprintf(&sb, "(assert (not (%s %d)))\n", name, id)
			}
		}
	}
	if fv.kindUsed {
		for id, t := range fv.eng.tidT {
			if t == nil {
				continue
			}
			fmt.Fprintf(&sb, "(assert (= (pv_kind %d) %d))\n", id, reflectKind(t))
			if el := elemTypeForReflect(t); el != nil {
				fmt.Fprintf(&sb, "(assert (= (pv_telem %d) %d))\n", id, fv.eng.tid(el))
			}
			if m, ok := t.Underlying().(*types.Map); ok {
				fmt.Fprintf(&sb, "(assert (= (pv_tkey %d) %d))\n", id, fv.eng.tid(m.Key()))
			}
		}
	}
	return sb.String()
}

func elemTypeForReflect(t types.Type) types.Type {
	switch u := t.Underlying().(type) {
	case *types.Slice:
		return u.Elem()
	case *types.Array:
		return u.Elem()
	case *types.Pointer:
		return u.Elem()
	case *types.Map:
		return u.Elem()
	case *types.Chan:
		return u.Elem()
	}
	return nil
}

// reflect.Kind numbering.
const (
	kInvalid = iota
	kBool
	kInt
	kInt8
	kInt16
	kInt32
	kInt64
	kUint
	kUint8
	kUint16
	kUint32
	kUint64
	kUintptr
	kFloat32
	kFloat64
	kComplex64
	kComplex128
	kArray
	kChan
	kFunc
	kInterface
	kMap
	kPointer
	kSlice
	kString
	kStruct
	kUnsafePointer
)

func reflectKind(t types.Type) int {
	switch u := t.Underlying().(type) {
	case *types.Basic:
		switch u.Kind() {
		case types.Bool:
			return kBool
		case types.Int:
			return kInt
		case types.Int8:
			return kInt8
		case types.Int16:
			return kInt16
		case types.Int32:
			return kInt32
		case types.Int64:
			return kInt64
		case types.Uint:
			return kUint
		case types.Uint8:
			return kUint8
		case types.Uint16:
			return kUint16
		case types.Uint32:
			return kUint32
		case types.Uint64:
			return kUint64
		case types.Uintptr:
			return kUintptr
		case types.Float32:
			return kFloat32
		case types.Float64:
			return kFloat64
		case types.Complex64:
			return kComplex64
		case types.Complex128:
			return kComplex128
		case types.String:
			return kString
		case types.UnsafePointer:
			return kUnsafePointer
		}
	case *types.Array:
		return kArray
	case *types.Chan:
		return kChan
	case *types.Signature:
		return kFunc
	case *types.Interface:
		return kInterface
	case *types.Map:
		return kMap
	case *types.Pointer:
		return kPointer
	case *types.Slice:
		return kSlice
	case *types.Struct:
		return kStruct
	}
	return kInvalid
}
