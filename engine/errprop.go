package main

import (
	"fmt"
	"go/constant"
	"go/token"
	"go/types"
	"strings"

	"golang.org/x/tools/go/ssa"
)

// errRec: an error value materialised in this activation.
type errRec struct {
	E      Term
	Cond   Term
	Callee string
	Pos    token.Pos
	Strict bool // must be wrapped (errors.Is) by the returned error, not merely reported
}

func isErrorType(t types.Type) bool { return types.TypeString(t, nil) == "error" }

func (fv *FV) wrapsDecl() {
	fv.decls.Add(1, "pv_wraps", `(declare-fun pv_wraps (pv_Val pv_Val) Bool)
(assert (forall ((a pv_Val)) (! (pv_wraps a a) :pattern ((pv_wraps a a)))))
(assert (forall ((a pv_Val) (b pv_Val) (c pv_Val)) (! (=> (and (pv_wraps a b) (pv_wraps b c)) (pv_wraps a c)) :pattern ((pv_wraps a b) (pv_wraps b c)))))`)
}

func (fv *FV) recordErr(st *State, e Term, cond Term, callee string, pos token.Pos, strict bool) {
	if fv.spec == nil || !fv.spec.ErrProp {
		return
	}
	st.errs = append(append([]errRec(nil), st.errs...), errRec{E: e, Cond: cond, Callee: callee, Pos: pos, Strict: strict})
}

// checkErrProp: at a return (ret = returned error, or zero Term if the function has none)
// or at a back edge (atEnd=false): every non-nil, non-tolerated error must have been propagated.
func (fv *FV) checkErrProp(st *State, ret *Term, pos token.Pos) {
	if fv.spec == nil || !fv.spec.ErrProp || len(st.errs) == 0 {
		return
	}
	fv.wrapsDecl()
	var errs []string
	for _, r := range st.errs {
		nonnil := tNot(tEq(tidOf(r.E), mkInt(0)))
		hyp := []Term{r.Cond, nonnil}
		if fv.spec.Tolerate != nil {
			env := fv.stateEnv(st, &errs)
			env.cells = fv.cellLookup(st)
			env.vars["e"] = r.E
			hyp = append(hyp, tNot(env.Eval(fv.spec.Tolerate.E)))
		}
		var goal Term
		if ret == nil {
			goal = tFalse
		} else {
			goal = tNot(tEq(tidOf(*ret), mkInt(0)))
			if r.Strict {
				goal = tAnd(goal, Term{S: fmt.Sprintf("(pv_wraps %s %s)", ret.S, r.E.S), Sort: SBool})
			}
		}
		// obligations are named by the call that produced the error, not by the return point
		o := &Obligation{Func: fv.short, Kind: "errprop", Detail: r.Callee, Pos: r.Pos, PosStr: fv.eng.pos(r.Pos),
			script: st.script, goal: tImp(tAnd(hyp...), goal), Path: st.path, Clause: "error from " + r.Callee + " must reach the caller"}
		if o.goal.S != "true" {
			fv.addObl(st, o)
		}
	}
	fv.reportErrs(errs)
}

// errorfFacts adds what follows from a constant format string: %w wrapping and the "line %d:" prefix.
func (fv *FV) formatFacts(st *State, spec *FuncSpec, c *ssa.CallCommon, args []Term, res []Term) {
	if c == nil || len(c.Args) < 2 || len(res) == 0 || len(args) < 2 {
		return
	}
	if spec.Key != "fmt.Errorf" && spec.Key != "fmt.Sprintf" {
		return
	}
	k, ok := c.Args[0].(*ssa.Const)
	if !ok || k.Value == nil || k.Value.Kind() != constant.String {
		return
	}
	format := constant.StringVal(k.Value)
	sl := args[1]
	elem := func(i int) Term {
		return Term{S: fmt.Sprintf("(select (%s_arr %s) %d)", sl.Sort, sl.S, i), Sort: SVal}
	}
	idx := 0
	for i := 0; i < len(format); i++ {
		if format[i] != '%' {
			continue
		}
		j := i + 1
		for j < len(format) && strings.ContainsRune("+-# 0123456789.", rune(format[j])) {
			j++
		}
		if j >= len(format) {
			break
		}
		if format[j] == '%' {
			i = j
			continue
		}
		if format[j] == 'w' && spec.Key == "fmt.Errorf" {
			fv.wrapsDecl()
			st.assume(Term{S: fmt.Sprintf("(pv_wraps %s %s)", res[0].S, elem(idx).S), Sort: SBool})
			// transitivity instances are found by the quantified axiom
		}
		idx++
		i = j
	}
	if strings.HasPrefix(format, "line %d: ") {
		if spec.Key == "fmt.Errorf" {
			fv.decls.Add(1, "pv_lineMsg", "(declare-fun pv_lineMsg (pv_Val pv_Val) Bool)")
			st.assume(Term{S: fmt.Sprintf("(pv_lineMsg %s %s)", res[0].S, elem(0).S), Sort: SBool})
		} else {
			fv.decls.Add(1, "pv_lineStr", "(declare-fun pv_lineStr (pv_Str pv_Val) Bool)")
			fv.decls.Add(1, "pv_linePrefixed", "(declare-fun pv_linePrefixed (pv_Str) Bool)")
			st.assume(Term{S: fmt.Sprintf("(pv_lineStr %s %s)", res[0].S, elem(0).S), Sort: SBool})
			st.assume(Term{S: fmt.Sprintf("(pv_linePrefixed %s)", res[0].S), Sort: SBool})
		}
	}
}
