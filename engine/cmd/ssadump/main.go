package main

import (
	"fmt"
	"os"
	"strings"

	"golang.org/x/tools/go/packages"
	"golang.org/x/tools/go/ssa"
	"golang.org/x/tools/go/ssa/ssautil"
)

func main() {
	cfg := &packages.Config{Mode: packages.LoadAllSyntax, Dir: "/repo", BuildFlags: []string{"-tags=verif"}}
	pkgs, err := packages.Load(cfg, "./...")
	if err != nil {
		panic(err)
	}
	prog, spkgs := ssautil.AllPackages(pkgs, ssa.NaiveForm)
	prog.Build()
	for _, sp := range spkgs {
		if sp == nil {
			continue
		}
		for _, m := range sp.Members {
			if f, ok := m.(*ssa.Function); ok {
				dump(f)
			}
			if t, ok := m.(*ssa.Type); ok {
				for _, T := range []interface{ String() string }{t.Type()} {
					_ = T
				}
				ms := prog.MethodSets.MethodSet(t.Type())
				for i := 0; i < ms.Len(); i++ {
					dump(prog.MethodValue(ms.At(i)))
				}
				// pointer
			}
		}
	}
	for fn := range ssautil.AllFunctions(prog) {
		if fn.Pkg != nil && strings.Contains(fn.Pkg.Pkg.Path(), "plush") {
			dump(fn)
		}
	}
}

var seen = map[*ssa.Function]bool{}

func dump(f *ssa.Function) {
	if f == nil || seen[f] {
		return
	}
	seen[f] = true
	for _, a := range os.Args[1:] {
		if strings.Contains(f.String(), a) {
			f.WriteTo(os.Stdout)
			fmt.Println()
		}
	}
}
