package main

import (
	"go/token"

	"golang.org/x/tools/go/ssa"
)

// lockEffect updates ghost "held" state for sync.Mutex Lock/Unlock contracts.
func (fv *FV) lockEffect(st *State, spec *FuncSpec, args []Term, pos token.Pos) {
	switch spec.Key {
	case "sync.Mutex.Lock":
		if len(args) > 0 {
			if st.held[args[0].S] {
				fv.oblige(st, "lock", "reentrant", pos, tFalse, "Lock while already held (sync.Mutex is not reentrant)")
			}
			st.held[args[0].S] = true
		}
	case "sync.Mutex.Unlock":
		if len(args) > 0 {
			if !st.held[args[0].S] {
				fv.oblige(st, "lock", "unlock-unheld", pos, tFalse, "Unlock of a mutex not held")
			}
			st.held[args[0].S] = false
		}
	}
}

// guardCheckImpl: guarded_by obligations (configured through Engine.guards).
func (fv *FV) guardCheckImpl(st *State, m ssa.Value, pos token.Pos) {
	g := fv.eng.guardFor(fv, st, m)
	if g == nil {
		return
	}
	ok := false
	for k, h := range st.held {
		if h && k == g.S {
			ok = true
		}
	}
	if !ok {
		fv.oblige(st, "guard", g.T.String(), pos, tFalse, "access to guarded map without holding its mutex")
	} else {
		// record a discharged (trivially true) guard obligation so that it is counted
		fv.guardsOK++
	}
}
