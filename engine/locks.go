package main

import (
	"go/token"
	"go/types"

	"golang.org/x/tools/go/ssa"
)

// lockEffect updates ghost "held" state for sync.Mutex Lock/Unlock contracts.
func (fv *FV) lockEffect(st *State, spec *FuncSpec, args []Term, pos token.Pos) {
	switch spec.Key {
	case "sync.Mutex.Lock":
		if len(args) > 0 {
			if st.held[args[0].S] {
				fv.oblige(st, "lock", "reentrant", pos, tFalse, "Lock while already held (sync.Mutex is not reentrant)")
			}
			st.held[args[0].S] = true
		}
	case "sync.Mutex.Unlock":
		if len(args) > 0 {
			if !st.held[args[0].S] {
				fv.oblige(st, "lock", "unlock-unheld", pos, tFalse, "Unlock of a mutex not held")
			}
			st.held[args[0].S] = false
		}
	case "sync.RWMutex.Lock":
		if len(args) > 0 {
			if st.held[args[0].S] || st.held["R:"+args[0].S] {
				fv.oblige(st, "lock", "reentrant", pos, tFalse, "Lock while already held (sync.RWMutex is not reentrant)")
			}
			st.held[args[0].S] = true
		}
	case "sync.RWMutex.Unlock":
		if len(args) > 0 {
			if !st.held[args[0].S] {
				fv.oblige(st, "lock", "unlock-unheld", pos, tFalse, "Unlock of a mutex not held")
			}
			st.held[args[0].S] = false
		}
	case "sync.RWMutex.RLock":
		if len(args) > 0 {
			// recursive read locking deadlocks as soon as a writer queues between the two RLocks
			if st.held[args[0].S] || st.held["R:"+args[0].S] {
				fv.oblige(st, "lock", "reentrant-read", pos, tFalse, "RLock while the mutex is already held by this activation (recursive read locking can deadlock with a pending writer)")
			}
			st.held["R:"+args[0].S] = true
		}
	case "sync.RWMutex.RUnlock":
		if len(args) > 0 {
			if !st.held["R:"+args[0].S] {
				fv.oblige(st, "lock", "runlock-unheld", pos, tFalse, "RUnlock of a mutex not read-held")
			}
			st.held["R:"+args[0].S] = false
		}
	}
}

// guardCheckImpl: guarded_by discipline. m is the SSA value of a map being read, written or ranged
// over. If it was loaded from a guarded field (or guarded package variable), the guarding mutex
// must be held on this path (ghost state `held`, maintained by the Lock/Unlock contracts).
func (fv *FV) guardCheckImpl(st *State, m ssa.Value, pos token.Pos, write bool) {
	ld, ok := m.(*ssa.UnOp)
	if !ok {
		return
	}
	var mutexTerm Term
	what := ""
	switch src := ld.X.(type) {
	case *ssa.FieldAddr:
		el, isP := isPtr(src.X.Type())
		if !isP {
			return
		}
		n, ok := el.(*types.Named)
		if !ok || n.Obj().Pkg() == nil {
			return
		}
		stt, ok := n.Underlying().(*types.Struct)
		if !ok {
			return
		}
		fname := stt.Field(src.Field).Name()
		for _, g := range fv.eng.specs.Guards {
			if g.PkgName == n.Obj().Pkg().Name() && g.Type == n.Obj().Name() && g.Field == fname {
				for i := 0; i < stt.NumFields(); i++ {
					if stt.Field(i).Name() == g.Mutex {
						obj := fv.val(st, src.X)
						if obj.K != VTerm {
							return
						}
						mutexTerm = fv.heapLoadPath(st, obj.T, el, []int{i})
						what = n.Obj().Name() + "." + fname
					}
				}
			}
		}
	case *ssa.Global:
		for _, g := range fv.eng.specs.Guards {
			if g.Type == "" && g.PkgName == src.Pkg.Pkg.Name() && g.Field == src.Name() {
				if mg, ok := src.Pkg.Members[g.Mutex].(*ssa.Global); ok {
					mutexTerm = fv.load(st, SymVal{K: VGlobalPtr, Global: mg}, mg.Type().(*types.Pointer).Elem(), pos).T
					what = src.Name()
				}
			}
		}
	}
	if what == "" {
		return
	}
	held := false
	for k, h := range st.held {
		if h && k == mutexTerm.S {
			held = true
		}
		if h && !write && k == "R:"+mutexTerm.S {
			held = true // a read lock suffices for reading
		}
	}
	goal := tTrue
	if !held {
		goal = tFalse
	}
	fv.oblige(st, "guard", what, pos, goal, "access to "+what+" requires holding its mutex")
}
