package main

import (
	"fmt"
	"go/types"

	"golang.org/x/tools/go/ssa"
)

type VKind int

const (
	VTerm VKind = iota
	VCellPtr
	VHeapPtr
	VElemPtr
	VGlobalPtr
	VTuple
	VClosure
	VMapIter
	VNone
)

type CellID struct {
	Frame int
	A     ssa.Value // *ssa.Alloc, *ssa.Range (iterator state), *ssa.Parameter
}

type SymVal struct {
	K      VKind
	T      Term
	Cell   CellID
	Path   []int      // field path within cell / heap object
	Root   types.Type // type of the cell content / struct type of heap object
	Ref    Term       // VHeapPtr: object reference
	Idx    *Term      // element index (cell holding array, or VElemPtr)
	Sl     Term       // VElemPtr: slice value
	Elems  []SymVal   // VTuple
	Fn     *ssa.Function
	Binds  []SymVal
	Global *ssa.Global
}

func tv(t Term) SymVal { return SymVal{K: VTerm, T: t} }

type Deferred struct {
	Call *ssa.CallCommon
	Fn   SymVal
	Args []SymVal
	Instr ssa.Instruction
}

type Frame struct {
	ID     int
	Fn     *ssa.Function
	Regs   map[ssa.Value]SymVal
	Block  *ssa.BasicBlock
	Prev   *ssa.BasicBlock
	Idx    int
	Defers []Deferred
	Caller *Frame
	CallInstr ssa.Instruction // instruction in caller awaiting the result (nil for deferred calls)
	DeferIdx int             // when running defers: continue RunDefers in caller
	InDefer  bool
	Binds  []SymVal
}

type LoopEntry struct {
	Measure []Term
}

type State struct {
	script   *Node
	cells    map[CellID]SymVal
	heap     map[string]Term
	epoch    int
	frame    *Frame
	nframe   int
	nonnil   map[string]bool
	loopsIn  map[*ssa.BasicBlock]*LoopEntry
	path     string
	entryHeap map[string]Term // always empty map with epoch 0 (entry state)
	held     map[string]bool
}

func (st *State) clone() *State {
	n := *st
	n.cells = make(map[CellID]SymVal, len(st.cells))
	for k, v := range st.cells {
		n.cells[k] = v
	}
	n.heap = make(map[string]Term, len(st.heap))
	for k, v := range st.heap {
		n.heap[k] = v
	}
	n.nonnil = make(map[string]bool, len(st.nonnil))
	for k, v := range st.nonnil {
		n.nonnil[k] = v
	}
	n.loopsIn = make(map[*ssa.BasicBlock]*LoopEntry, len(st.loopsIn))
	for k, v := range st.loopsIn {
		n.loopsIn[k] = v
	}
	n.held = make(map[string]bool, len(st.held))
	for k, v := range st.held {
		n.held[k] = v
	}
	n.frame = cloneFrame(st.frame)
	return &n
}

func cloneFrame(f *Frame) *Frame {
	if f == nil {
		return nil
	}
	n := *f
	n.Regs = make(map[ssa.Value]SymVal, len(f.Regs))
	for k, v := range f.Regs {
		n.Regs[k] = v
	}
	n.Defers = append([]Deferred(nil), f.Defers...)
	n.Caller = cloneFrame(f.Caller)
	return &n
}

func (st *State) emit(line string) { st.script = st.script.push(line) }

func (st *State) assume(t Term) {
	if t.S == "true" {
		return
	}
	st.emit("(assert " + t.S + ")")
}

// heapName with epoch: after "assigns everything" all heaps restart from fresh symbols.
func (fv *FV) heapGet(heap map[string]Term, epoch int, name string, sort string) Term {
	if t, ok := heap[name]; ok {
		return t
	}
	n := fmt.Sprintf("%s_e%d", name, epoch)
	fv.decls.Add(1, n, fmt.Sprintf("(declare-const %s %s)", n, sort))
	return Term{S: n, Sort: sort}
}

// def introduces a named definition for a term in the path script.
func (fv *FV) def(st *State, prefix string, t Term) Term {
	if len(t.S) < 40 {
		return t
	}
	n := fv.fresh(prefix)
	st.emit(fmt.Sprintf("(define-fun %s () %s %s)", n, t.Sort, t.S))
	return Term{S: n, Sort: t.Sort, T: t.T}
}

// freshConst declares a new unconstrained constant on this path.
func (fv *FV) freshConst(st *State, prefix string, sort string, t types.Type) Term {
	n := fv.fresh(prefix)
	st.emit(fmt.Sprintf("(declare-const %s %s)", n, sort))
	return Term{S: n, Sort: sort, T: t}
}
