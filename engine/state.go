package main

import (
	"fmt"
	"os"
	"runtime/debug"
	"go/token"
	"go/types"

	"golang.org/x/tools/go/ssa"
)

type VKind int

const (
	VTerm VKind = iota
	VCellPtr
	VHeapPtr
	VElemPtr
	VGlobalPtr
	VTuple
	VClosure
	VMapIter
	VNone
)

type CellID struct {
	Frame int
	A     ssa.Value // *ssa.Alloc, *ssa.Range (iterator state), *ssa.Parameter
}

type SymVal struct {
	K      VKind
	T      Term
	Cell   CellID
	Path   []int      // field path within cell / heap object
	Root   types.Type // type of the cell content / struct type of heap object
	Ref    Term       // VHeapPtr: object reference
	Idx    *Term      // element index (cell holding array, or VElemPtr)
	Sl     Term       // VElemPtr: slice value
	Elems  []SymVal   // VTuple
	Fn     *ssa.Function
	Binds  []SymVal
	Global *ssa.Global
}

func tv(t Term) SymVal { return SymVal{K: VTerm, T: t} }

type Deferred struct {
	Call *ssa.CallCommon
	Fn   SymVal
	Args []SymVal
	Instr ssa.Instruction
}

type Frame struct {
	ID     int
	Fn     *ssa.Function
	Regs   map[ssa.Value]SymVal
	Block  *ssa.BasicBlock
	Prev   *ssa.BasicBlock
	Idx    int
	Defers []Deferred
	Caller *Frame
	CallInstr ssa.Instruction // instruction in caller awaiting the result (nil for deferred calls)
	DeferIdx int             // when running defers: continue RunDefers in caller
	InDefer  bool
	Binds  []SymVal
}

type LoopEntry struct {
	Measure []Term
}

type State struct {
	script   *Node
	cells    map[CellID]SymVal
	heap     map[string]Term
	epoch    int
	frame    *Frame
	nframe   int
	nonnil   map[string]bool
	loopsIn  map[*ssa.BasicBlock]*LoopEntry
	path     string
	entryHeap map[string]Term // always empty map with epoch 0 (entry state)
	held     map[string]bool
	dirty    map[string]dirtyObj
	errs     []errRec
	ghosts   map[string]Term
	ghostBound map[string]bool
	callCount  map[string]int
	cnt        map[string]Term // calls(NAME): symbolic number of calls of NAME made by this activation
	loopSnap   *State          // state at the most recent loop head on this path (for prev())
	facts    map[string]bool
	defs     map[string]string
	local    map[string]bool     // fresh objects of this activation that have not escaped yet
	owned    map[string][]string // local object -> local objects stored into its fields
	aliases  map[string][]string // defined name -> fresh object names its body mentions
}

type dirtyObj struct {
	Ref Term
	T   types.Type // struct type
}

func (st *State) clone() *State {
	n := *st
	n.cells = make(map[CellID]SymVal, len(st.cells))
	for k, v := range st.cells {
		n.cells[k] = v
	}
	n.heap = make(map[string]Term, len(st.heap))
	for k, v := range st.heap {
		n.heap[k] = v
	}
	n.nonnil = make(map[string]bool, len(st.nonnil))
	for k, v := range st.nonnil {
		n.nonnil[k] = v
	}
	n.loopsIn = make(map[*ssa.BasicBlock]*LoopEntry, len(st.loopsIn))
	for k, v := range st.loopsIn {
		n.loopsIn[k] = v
	}
	n.held = make(map[string]bool, len(st.held))
	for k, v := range st.held {
		n.held[k] = v
	}
	n.local = make(map[string]bool, len(st.local))
	for k, v := range st.local {
		n.local[k] = v
	}
	n.owned = make(map[string][]string, len(st.owned))
	for k, v := range st.owned {
		n.owned[k] = v
	}
	n.aliases = make(map[string][]string, len(st.aliases))
	for k, v := range st.aliases {
		n.aliases[k] = v
	}
	n.defs = make(map[string]string, len(st.defs))
	for k, v := range st.defs {
		n.defs[k] = v
	}
	n.ghosts = make(map[string]Term, len(st.ghosts))
	for k, v := range st.ghosts {
		n.ghosts[k] = v
	}
	n.facts = make(map[string]bool, len(st.facts))
	for k, v := range st.facts {
		n.facts[k] = v
	}
	n.dirty = make(map[string]dirtyObj, len(st.dirty))
	for k, v := range st.dirty {
		n.dirty[k] = v
	}
	n.frame = cloneFrame(st.frame)
	return &n
}

func cloneFrame(f *Frame) *Frame {
	if f == nil {
		return nil
	}
	n := *f
	n.Regs = make(map[ssa.Value]SymVal, len(f.Regs))
	for k, v := range f.Regs {
		n.Regs[k] = v
	}
	n.Defers = append([]Deferred(nil), f.Defers...)
	n.Caller = cloneFrame(f.Caller)
	return &n
}

func (st *State) emit(line string) { st.script = st.script.push(line) }

func (st *State) assume(t Term) {
	if t.S == "true" {
		return
	}
	st.emit("(assert " + t.S + ")")
}

// heapName with epoch: after "assigns everything" all heaps restart from fresh symbols.
func (fv *FV) heapGet(heap map[string]Term, epoch int, name string, sort string) Term {
	if t, ok := heap[name]; ok {
		return t
	}
	n := fmt.Sprintf("%s_e%d", name, epoch)
	fv.decls.Add(1, n, fmt.Sprintf("(declare-const %s %s)", n, sort))
	return Term{S: n, Sort: sort}
}

// def introduces a named definition for a term in the path script.
func (fv *FV) def(st *State, prefix string, t Term) Term {
	if len(t.S) < 40 {
		return t
	}
	if n, ok := st.defs[t.S]; ok {
		return Term{S: n, Sort: t.Sort, T: t.T}
	}
	n := fv.fresh(prefix)
	st.emit(fmt.Sprintf("(define-fun %s () %s %s)", n, t.Sort, t.S))
	if st.defs == nil {
		st.defs = map[string]string{}
	}
	st.defs[t.S] = n
	if m := st.mentions(t.S); len(m) > 0 {
		if st.aliases == nil {
			st.aliases = map[string][]string{}
		}
		st.aliases[n] = m
	}
	return Term{S: n, Sort: t.Sort, T: t.T}
}

// freshConst declares a new unconstrained constant on this path.
func (fv *FV) freshConst(st *State, prefix string, sort string, t types.Type) Term {
	n := fv.fresh(prefix)
	st.emit(fmt.Sprintf("(declare-const %s %s)", n, sort))
	return Term{S: n, Sort: sort, T: t}
}

// ---- allocation model: references are handed out by a counter -----------------
// allocated(x) := 0 <= x < next ; a fresh object gets ref == next.

func (fv *FV) nextOf(heap map[string]Term, epoch int) Term {
	return fv.heapGet(heap, epoch, "pv_next", SInt)
}

func (fv *FV) isAlloc(heap map[string]Term, epoch int, x Term) Term {
	n := fv.nextOf(heap, epoch)
	return Term{S: fmt.Sprintf("(and (<= 0 %s) (< %s %s))", x.S, x.S, n.S), Sort: SBool}
}

func (fv *FV) allocAtEntry(x Term) Term {
	return fv.isAlloc(map[string]Term{}, 0, x)
}

// ---- type invariants -------------------------------------------------------------

func (fv *FV) typeInvOf(structT types.Type) *TypeInvSpec {
	n, ok := structT.(*types.Named)
	if !ok || n.Obj().Pkg() == nil {
		return nil
	}
	return fv.eng.specs.TypeInvs[n.Obj().Pkg().Name()+"."+n.Obj().Name()]
}

func (fv *FV) typeInvTerm(st *State, ti *TypeInvSpec, ref Term, structT types.Type, errs *[]string) Term {
	ref.T = types.NewPointer(structT)
	env := &Env{fv: fv, st: st, heap: st.heap, epoch: st.epoch, vars: map[string]Term{ti.Var: ref}, pkgName: ti.PkgName, err: errs}
	return env.Eval(ti.Clause.E)
}

func (fv *FV) markDirty(st *State, ref Term, structT types.Type) {
	if fv.typeInvOf(structT) == nil {
		return
	}
	if st.dirty == nil {
		st.dirty = map[string]dirtyObj{}
	}
	st.dirty[ref.S] = dirtyObj{Ref: ref, T: structT}
}

// assumeTypeInv: a reference of pointer type obtained from a parameter, the heap or a callee
// denotes an object satisfying its type invariant, unless it is one this activation is mutating.
func (fv *FV) assumeTypeInv(st *State, ref Term, ptrT types.Type) {
	fv.assumeTypeInvIf(st, tTrue, ref, ptrT)
}

func (fv *FV) assumeTypeInvIf(st *State, cond Term, ref Term, ptrT types.Type) {
	el, ok := isPtr(ptrT)
	if !ok {
		return
	}
	ti := fv.typeInvOf(el)
	if ti == nil {
		return
	}
	var errs []string
	inv := fv.typeInvTerm(st, ti, ref, el, &errs)
	guards := []Term{cond, tNot(tEq(ref, mkInt(0)))}
	for _, k := range sortedKeys(st.dirty) {
		d := st.dirty[k]
		if types.Identical(d.T, el) {
			guards = append(guards, tNot(tEq(ref, d.Ref)))
		}
	}
	st.assume(tImp(tAnd(guards...), inv))
	fv.reportErrs(errs)
}

// mentions: the not-yet-escaped fresh objects a term refers to (directly or through defined names).
func (st *State) mentions(s string) []string {
	if len(st.local) == 0 {
		return nil
	}
	var out []string
	seen := map[string]bool{}
	start := -1
	flush := func(end int) {
		if start < 0 {
			return
		}
		tok := s[start:end]
		start = -1
		if st.local[tok] && !seen[tok] {
			seen[tok] = true
			out = append(out, tok)
		}
		for _, r := range st.aliases[tok] {
			if st.local[r] && !seen[r] {
				seen[r] = true
				out = append(out, r)
			}
		}
	}
	for i := 0; i < len(s); i++ {
		c := s[i]
		if c == '(' || c == ')' || c == ' ' {
			flush(i)
		} else if start < 0 {
			start = i
		}
	}
	flush(len(s))
	return out
}

// escape: the object (and everything stored into it while it was local) becomes visible to others.
func (st *State) escape(name string) {
	if !st.local[name] {
		return
	}
	if os.Getenv("PV_DEBUG_ESCAPE") != "" {
		fmt.Fprintf(os.Stderr, "escape %s at path %s\n%s\n", name, st.path, debug.Stack())
	}
	delete(st.local, name)
	for _, c := range st.owned[name] {
		st.escape(c)
	}
}

func (st *State) escapeTerm(t Term) {
	for _, r := range st.mentions(t.S) {
		st.escape(r)
	}
}

// checkTypeInvs: objects written in this activation that others can see must satisfy their
// invariant again before control leaves (call, return, loop head). Fresh objects that have not
// escaped are still under construction and are not checked (garbage at return is never checked).
func (fv *FV) checkTypeInvs(st *State, pos token.Pos) {
	if len(st.dirty) == 0 {
		return
	}
	for _, k := range sortedKeys(st.dirty) {
		d := st.dirty[k]
		if st.local[k] {
			continue
		}
		ti := fv.typeInvOf(d.T)
		if ti == nil {
			continue
		}
		var errs []string
		inv := fv.typeInvTerm(st, ti, d.Ref, d.T, &errs)
		fv.oblige(st, "typeinv", typeShort(d.T), pos, inv, ti.Clause.Text)
		fv.reportErrs(errs)
		delete(st.dirty, k)
	}
}
