package main

import (
	"fmt"
	"go/token"
	"go/types"
	"strings"

	"golang.org/x/tools/go/ssa"
)

// Node is a persistent list of script lines (shared prefixes between paths).
type Node struct {
	parent *Node
	line   string
}

func (n *Node) push(line string) *Node { return &Node{parent: n, line: line} }

func (n *Node) lines() []string {
	var out []string
	for x := n; x != nil; x = x.parent {
		out = append(out, x.line)
	}
	for i, j := 0, len(out)-1; i < j; i, j = i+1, j-1 {
		out[i], out[j] = out[j], out[i]
	}
	return out
}

type Obligation struct {
	Func    string // short function name
	Kind    string // index, slice, nil, div, assert-type, pre, post, inv-entry, inv-pres, dec, frame, ...
	Detail  string
	Pos     token.Pos
	PosStr  string
	Name    string // assigned at the end
	Clause  string
	script  *Node
	goal    Term
	Path    string
	Values  []Term // terms to evaluate in a model
	ValueNames []string
	// results
	Status string // unsat | sat | unknown | timeout | error
	Solver string
	Secs   float64
	Model  string
	SMTLen int
	id     int
	Candidate bool
	Ground string
}

// FV verifies one function.
type FV struct {
	eng    *Engine
	fn     *ssa.Function
	spec   *FuncSpec
	short  string
	decls  *Decls
	obls   []*Obligation
	nfresh int
	warn   []string
	outside []string
	usedSpecFns map[string]bool
	strConsts   map[string]string
	wrap   bool
	loops  map[*ssa.BasicBlock]*LoopInfo
	paths  int
	unmodelled map[string]bool
	inlined    map[string]bool
	uncontracted map[string]bool // repo functions called without contract and not inlinable
	globalsRead  map[string]bool // package-level variables of the repository read by the function
	cntNames   []string
	prevUsed   bool
	calleesByContract map[string]bool
	assumptions map[string]bool
	implUsed map[string]types.Type // interface name -> type
	sliceElems map[string]string
	guardsOK   int
	curBinds   []SymVal
	pendingForks []*State
	typeFactsCache string
	typeFactsDone  bool
	freeVarEntry map[string]Term
	entryScript *Node
	vacuous    bool
	leaves     []*Node
	usesEvalPhase bool
	hsUses     map[string][]heapUse
	hsBusy     map[string]bool
	hsUnfolded map[*State]map[string]bool
	axiomCache string
	axiomDone  bool
	kindUsed bool
}

func (fv *FV) fresh(prefix string) string {
	fv.nfresh++
	return fmt.Sprintf("%s!%d", smtName(prefix), fv.nfresh)
}

func (fv *FV) warnf(f string, a ...interface{}) {
	s := fmt.Sprintf(f, a...)
	for _, w := range fv.warn {
		if w == s {
			return
		}
	}
	fv.warn = append(fv.warn, s)
}

func (fv *FV) outsidef(f string, a ...interface{}) {
	s := fmt.Sprintf(f, a...)
	for _, w := range fv.outside {
		if w == s {
			return
		}
	}
	fv.outside = append(fv.outside, s)
}

func typeShort(t types.Type) string {
	return types.TypeString(t, func(p *types.Package) string { return p.Name() })
}

// sortOf maps a Go type to an SMT sort, registering declarations.
func (fv *FV) sortOf(t types.Type) string {
	switch u := t.(type) {
	case *types.Named:
		if u.Obj().Pkg() != nil && u.Obj().Pkg().Path() == "reflect" && u.Obj().Name() == "Value" {
			return SRV
		}
		if u.Obj().Pkg() != nil && u.Obj().Pkg().Path() == "reflect" && u.Obj().Name() == "Type" {
			return SInt // reflect.Type is modelled as a type id (0 = nil)
		}
		switch uu := u.Underlying().(type) {
		case *types.Struct:
			if isRepoType(u) {
				return fv.structSort(u, uu)
			}
			name := "pv_X_" + smtName(typeShort(u))
			fv.decls.Add(0, name, fmt.Sprintf("(declare-sort %s 0)", name))
			return name
		default:
			return fv.sortOf(uu)
		}
	case *types.Alias:
		return fv.sortOf(types.Unalias(u))
	case *types.Basic:
		switch {
		case u.Info()&types.IsBoolean != 0:
			return SBool
		case u.Info()&types.IsInteger != 0:
			return SInt
		case u.Info()&types.IsString != 0:
			return SStr
		case u.Info()&types.IsFloat != 0:
			return SF64
		case u.Kind() == types.UnsafePointer:
			return SInt
		case u.Kind() == types.UntypedNil:
			return SInt
		}
	case *types.Pointer:
		return SInt
	case *types.Map, *types.Chan:
		return SInt
	case *types.Interface:
		return SVal
	case *types.Signature:
		return SFn
	case *types.Slice:
		return fv.sliceSort(fv.sortOf(u.Elem()))
	case *types.Array:
		return fv.sliceSort(fv.sortOf(u.Elem()))
	case *types.Struct:
		return fv.structSort(nil, u)
	case *types.Tuple:
		return "TUPLE"
	}
	fv.outsidef("unsupported type %s", t)
	return SInt
}

func (fv *FV) sliceSort(elem string) string {
	name := "pv_Sl_" + smtName(elem)
	fv.sliceElems[name] = elem
	fv.decls.Add(0, name, fmt.Sprintf("(declare-datatypes ((%s 0)) (((%s_mk (%s_arr (Array Int %s)) (%s_len Int)))))", name, name, name, elem, name))
	return name
}

func sliceElemSort(sliceSort string, fv *FV) string {
	// recorded in decl text; recover by registry
	return fv.sliceElems[sliceSort]
}

func (fv *FV) structSort(n *types.Named, st *types.Struct) string {
	var name string
	if n != nil {
		name = "pv_S_" + smtName(typeShort(n))
	} else {
		name = "pv_S_anon_" + smtName(st.String())
	}
	if fv.decls.Has(name) {
		return name
	}
	// fields first
	var fields []string
	for i := 0; i < st.NumFields(); i++ {
		fs := fv.sortOf(st.Field(i).Type())
		fields = append(fields, fmt.Sprintf("(%s_f%d %s)", name, i, fs))
	}
	if len(fields) == 0 {
		fv.decls.Add(0, name, fmt.Sprintf("(declare-datatypes ((%s 0)) (((%s_mk))))", name, name))
	} else {
		fv.decls.Add(0, name, fmt.Sprintf("(declare-datatypes ((%s 0)) (((%s_mk %s))))", name, name, strings.Join(fields, " ")))
	}
	return name
}

func structOf(t types.Type) (*types.Struct, bool) {
	if p, ok := t.Underlying().(*types.Pointer); ok {
		t = p.Elem()
	}
	s, ok := t.Underlying().(*types.Struct)
	return s, ok
}

func (fv *FV) structGet(v Term, t types.Type, idx int) Term {
	st, _ := t.Underlying().(*types.Struct)
	srt := fv.sortOf(t)
	ft := st.Field(idx).Type()
	acc := fmt.Sprintf("%s_f%d", srt, idx)
	if strings.HasPrefix(srt, "pv_X_") {
		// a struct type from outside the repository: an uninterpreted sort with uninterpreted field
		// accessors (reading a field is a function of the value; nothing else is known)
		fv.decls.Add(1, acc, fmt.Sprintf("(declare-fun %s (%s) %s)", acc, srt, fv.sortOf(ft)))
	}
	r := app(fv.sortOf(ft), acc, v)
	r.T = ft
	return r
}

func (fv *FV) structSet(v Term, t types.Type, idx int, nv Term) Term {
	st, _ := t.Underlying().(*types.Struct)
	srt := fv.sortOf(t)
	if strings.HasPrefix(srt, "pv_X_") {
		fv.outsidef("assignment to a field of the external struct type %s", typeShort(t))
		return v
	}
	var args []Term
	for i := 0; i < st.NumFields(); i++ {
		if i == idx {
			args = append(args, nv)
		} else {
			args = append(args, fv.structGet(v, t, i))
		}
	}
	r := app(srt, srt+"_mk", args...)
	if len(args) == 0 {
		r = Term{S: srt + "_mk", Sort: srt}
	}
	r.T = t
	return r
}

func (fv *FV) structMk(t types.Type, fields []Term) Term {
	srt := fv.sortOf(t)
	if len(fields) == 0 {
		return Term{S: srt + "_mk", Sort: srt, T: t}
	}
	r := app(srt, srt+"_mk", fields...)
	r.T = t
	return r
}

// zero value of a Go type.
func (fv *FV) zero(t types.Type) Term {
	s := fv.sortOf(t)
	var r Term
	switch {
	case s == SInt:
		r = mkInt(0)
	case s == SBool:
		r = tFalse
	case s == SStr:
		r = Term{S: "pv_empty", Sort: SStr}
	case s == SVal:
		r = Term{S: "(pv_mkval 0 0)", Sort: SVal}
	case s == SFn:
		r = Term{S: "(pv_mkfn 0 0)", Sort: SFn}
	case s == SF64:
		fv.decls.Add(1, "pv_f64zero", "(declare-const pv_f64zero pv_F64)")
		r = Term{S: "pv_f64zero", Sort: SF64}
	case strings.HasPrefix(s, "pv_Sl_"):
		es := fv.elemSortOfType(t)
		ez := fv.zeroOfSort(es, elemType(t))
		r = Term{S: fmt.Sprintf("(%s_mk %s 0)", s, fv.constArray(es, ez)), Sort: s}
		if a, ok := t.Underlying().(*types.Array); ok {
			r = Term{S: fmt.Sprintf("(%s_mk %s %d)", s, fv.constArray(es, ez), a.Len()), Sort: s}
		}
	case strings.HasPrefix(s, "pv_S_"):
		st := t.Underlying().(*types.Struct)
		var fs []Term
		for i := 0; i < st.NumFields(); i++ {
			fs = append(fs, fv.zero(st.Field(i).Type()))
		}
		r = fv.structMk(t, fs)
	default:
		name := "pv_zero_" + smtName(s)
		fv.decls.Add(1, name, fmt.Sprintf("(declare-const %s %s)", name, s))
		r = Term{S: name, Sort: s}
	}
	r.T = t
	return r
}

func elemType(t types.Type) types.Type {
	switch u := t.Underlying().(type) {
	case *types.Slice:
		return u.Elem()
	case *types.Array:
		return u.Elem()
	case *types.Pointer:
		return u.Elem()
	case *types.Map:
		return u.Elem()
	}
	return nil
}

func (fv *FV) elemSortOfType(t types.Type) string {
	return fv.sortOf(elemType(t))
}

func (fv *FV) zeroOfSort(s string, t types.Type) Term {
	if t != nil {
		return fv.zero(t)
	}
	switch s {
	case SInt:
		return mkInt(0)
	case SBool:
		return tFalse
	}
	name := "pv_zero_" + smtName(s)
	fv.decls.Add(1, name, fmt.Sprintf("(declare-const %s %s)", name, s))
	return Term{S: name, Sort: s}
}

// strConst returns a term for a Go string constant.
func (fv *FV) strConst(s string) Term {
	if s == "" {
		return Term{S: "pv_empty", Sort: SStr, T: types.Typ[types.String]}
	}
	if n, ok := fv.strConsts[s]; ok {
		return Term{S: n, Sort: SStr, T: types.Typ[types.String]}
	}
	name := fmt.Sprintf("pv_s%d_%s", len(fv.strConsts), smtName(truncate(s, 12)))
	fv.strConsts[s] = name
	var sb strings.Builder
	fmt.Fprintf(&sb, "(declare-const %s pv_Str) ; %s\n(assert (= (pv_len %s) %d))", name, smtStringLit(s), name, len(s))
	for i := 0; i < len(s); i++ {
		fmt.Fprintf(&sb, "\n(assert (= (pv_at %s %d) %d))", name, i, s[i])
	}
	fv.decls.Add(1, "str:"+s, sb.String())
	return Term{S: name, Sort: SStr, T: types.Typ[types.String]}
}

func truncate(s string, n int) string {
	if len(s) > n {
		return s[:n]
	}
	return s
}

// heap names -----------------------------------------------------------

func fieldHeapName(t types.Type, idx int) string {
	if p, ok := t.Underlying().(*types.Pointer); ok {
		t = p.Elem()
	}
	st, _ := t.Underlying().(*types.Struct)
	fname := fmt.Sprintf("f%d", idx)
	if st != nil && idx < st.NumFields() {
		fname = st.Field(idx).Name()
	}
	return "H_" + smtName(typeShort(t)) + "_" + fname
}

func (fv *FV) heapSort(name string, valSort string) string {
	return arraySort(SInt, valSort)
}

// assumption bookkeeping
func (fv *FV) assume(code string) { fv.assumptions[code] = true }

// constArray: an array all of whose elements are v. Value sorts use SMT constant arrays; for
// uninterpreted element sorts (cvc5 rejects non-value constants there) a declared array with an axiom.
func (fv *FV) constArray(es string, v Term) string {
	if es == SInt || es == SBool {
		return fmt.Sprintf("((as const (Array Int %s)) %s)", es, v.S)
	}
	name := "pv_constarr_" + smtName(es)
	fv.decls.Add(1, name, fmt.Sprintf("(declare-const %s (Array Int %s))\n(assert (forall ((i Int)) (! (= (select %s i) %s) :pattern ((select %s i)))))", name, es, name, v.S, name))
	return name
}
