package main

// Contract files: structured //@ comments.
//
//   //@ pred name(a T, b U) = expr
//   //@ spec name(a T, b U) R            (uninterpreted)
//   //@ spec name(a T, b U) R = expr     (macro, may read the heap)
//   //@ axiom [label:] expr
//   //@ func name | func (r *T) name | func (r T) name | func name$1
//   //@ extern pkg.name(a, b) r | extern pkg.Type.name(recv, a) r0, r1
//   //@ iface pkg.Iface.name(recv, a) r
//   //@ functype name(recvless params) r
//   //@   requires [label:] expr
//   //@   ensures  [label:] expr
//   //@   assigns  e1, e2 | nothing | everything
//   //@   decreases e1, e2
//   //@   loop K: invariant [label:] expr
//   //@   loop K: decreases expr
//   //@   arith wrap | trusted | inline | logged | noframe
// Continuation: a line "//@     text" (>= 4 blanks after //@) continues the previous clause.

import (
	"bufio"
	"fmt"
	"os"
	"regexp"
	"strconv"
	"strings"
)

type Clause struct {
	Label string
	Text  string
	E     Expr
	File  string
	Line  int
}

type LoopSpec struct {
	Invariants []*Clause
	Decreases  []*Clause
}

type FuncSpec struct {
	Key        string // pkgname.Recv.name or pkgname.name
	PkgName    string
	Kind       string // func | extern | iface | functype
	ParamNames []string
	ResNames   []string
	Requires   []*Clause
	Ensures    []*Clause
	Assigns    []*Clause
	AssignsAll bool
	AssignsSet bool
	Fresh      bool // assigns ... fresh
	Decreases  []*Clause
	Loops      map[int]*LoopSpec
	ArithWrap  bool
	Trusted    bool
	Inline     bool
	Logged     bool
	NoFrame    bool
	ErrProp    bool
	Mutual     bool // decreases is a shared measure for a group of mutually recursive functions
	Sig        string
	HTMLLicensed bool
	Tolerate   *Clause
	Ghost      []*Clause
	GhostAt    []GhostAt
	Asserts    []AssertAt
	Owned      []string // locals that must only ever hold slices allocated by this activation
	Acquires   []*Clause // mutexes this function locks itself: a caller must not hold them
	Tables     []ConstTable
	Readonly   []string // map/slice parameters the function must not write through
	File       string
	Line       int
	Used       bool
}

// ConstTable: consttable VAR: K1 => V1, K2 => V2, ... - the package-level map VAR is initialised by a
// composite literal with exactly these constant entries and is never written afterwards; the facts are
// then available to the function that carries the directive.
type ConstTable struct {
	Var     string
	Keys    []*Clause
	Vals    []*Clause
	Line    int
}

// AssertAt: assert LABEL: EXPR before|after CALLEE[#k] - an obligation at a call site
type AssertAt struct {
	Ord    int
	After  bool
	Clause *Clause
	Callee string
}

type GhostAt struct {
	Ord    int // bind at the Ord-th call of Callee on the path (1 = first)
	Name   string
	Clause *Clause
	Callee string
}

type PredSpec struct {
	Name    string
	PkgName string
	Params  []VarDecl
	Result  string // Go type text; "bool" for pred
	Body    Expr   // nil => uninterpreted
	Ghost   bool   // ghost field of an object: name(obj) reads a per-object ghost heap
	Heap    bool   // heap-dependent recursive spec function (encoded over explicit heap arguments)
	File    string
	Line    int
}

type AxiomSpec struct {
	Clause  *Clause
	PkgName string
}

type TypeInvSpec struct {
	Var     string
	Type    string // type name (no package)
	PkgName string
	Clause  *Clause
}

// GuardSpec: guarded_by T.field by T.mutex  |  guarded_by var by mutexvar   (package pkg)
type GuardSpec struct {
	PkgName string
	Type    string // "" for package-level variables
	Field   string
	Mutex   string
}

type Specs struct {
	Guards   []*GuardSpec
	TypeInvs map[string]*TypeInvSpec // pkg.Type
	Funcs  map[string]*FuncSpec
	Preds  map[string]*PredSpec // by name and by pkg.name
	Axioms []*AxiomSpec
	Errors []string
}

func NewSpecs() *Specs {
	return &Specs{Funcs: map[string]*FuncSpec{}, Preds: map[string]*PredSpec{}, TypeInvs: map[string]*TypeInvSpec{}}
}

var labelRe = regexp.MustCompile(`^([A-Za-z_][A-Za-z0-9_\-]*):\s+(.*)$`)
var typeinvRe = regexp.MustCompile(`^\(\s*(\w+)\s+\*(\w+)\s*\)\s*=\s*(.*)$`)
var guardRe = regexp.MustCompile(`^(?:(\w+)\.)?(\w+)\s+by\s+(?:(\w+)\.)?(\w+)$`)
var ghostAtRe = regexp.MustCompile(`^(\w+)\s*=\s*(.*?)\s+after\s+([\w.$]+(?:#\d+)?)$`)
var assertAtRe = regexp.MustCompile(`^(.*?)\s+(before|after)\s+([\w.$]+(?:#(?:\d+|\*))?)$`)
var funcHdrRe = regexp.MustCompile(`^func\s+(?:\(\s*(\w+)?\s*(\*?)\s*([\w]+)\s*\)\s*)?([\w$]+)\s*$`)

type rawLine struct {
	text string
	line int
}

// LoadSpecFile parses one contract file. pkgName is the Go package name the
// file belongs to ("" for stdlib spec files).
func (sp *Specs) LoadSpecFile(path, pkgName string) {
	f, err := os.Open(path)
	if err != nil {
		sp.Errors = append(sp.Errors, err.Error())
		return
	}
	defer f.Close()
	sc := bufio.NewScanner(f)
	sc.Buffer(make([]byte, 1<<20), 1<<20)
	var lines []rawLine
	n := 0
	for sc.Scan() {
		n++
		t := sc.Text()
		tt := strings.TrimLeft(t, " \t")
		if !strings.HasPrefix(tt, "//@") {
			continue
		}
		body := tt[3:]
		if strings.HasPrefix(body, "    ") || strings.HasPrefix(body, "\t\t") {
			// continuation
			if len(lines) > 0 {
				lines[len(lines)-1].text += " " + strings.TrimSpace(body)
				continue
			}
		}
		// strip trailing "// comment" that follows two spaces (kept simple: only " //" outside quotes)
		body = stripComment(body)
		body = strings.TrimSpace(body)
		if body == "" {
			continue
		}
		lines = append(lines, rawLine{text: body, line: n})
	}
	var cur *FuncSpec
	errf := func(l rawLine, f string, a ...interface{}) {
		sp.Errors = append(sp.Errors, fmt.Sprintf("%s:%d: %s", path, l.line, fmt.Sprintf(f, a...)))
	}
	mkClause := func(l rawLine, text string) *Clause {
		c := &Clause{File: path, Line: l.line}
		if m := labelRe.FindStringSubmatch(text); m != nil && m[1] != "forall" && m[1] != "exists" {
			c.Label = m[1]
			text = m[2]
		}
		c.Text = text
		e, err := ParseExpr(text)
		if err != nil {
			errf(l, "%v", err)
			return nil
		}
		c.E = e
		return c
	}
	for _, l := range lines {
		t := l.text
		word := t
		rest := ""
		if i := strings.IndexAny(t, " \t"); i >= 0 {
			word = t[:i]
			rest = strings.TrimSpace(t[i:])
		}
		switch word {
		case "package":
			pkgName = rest
		case "pred", "spec", "heapspec", "ghostfield":
			cur = nil
			ps, err := parsePredHeader(rest, word == "pred")
			if ps != nil && word == "heapspec" {
				ps.Heap = true
			}
			if ps != nil && word == "ghostfield" {
				ps.Ghost = true
			}
			if err != nil {
				errf(l, "%v", err)
				continue
			}
			ps.PkgName = pkgName
			ps.File = path
			ps.Line = l.line
			sp.Preds[ps.Name] = ps
			if pkgName != "" {
				sp.Preds[pkgName+"."+ps.Name] = ps
			}
		case "guarded_by":
			cur = nil
			m := guardRe.FindStringSubmatch(rest)
			if m == nil {
				errf(l, "bad guarded_by (want: guarded_by [T.]field by [T.]mutex)")
				continue
			}
			sp.Guards = append(sp.Guards, &GuardSpec{PkgName: pkgName, Type: m[1], Field: m[2], Mutex: m[4]})
		case "typeinv":
			cur = nil
			m := typeinvRe.FindStringSubmatch(rest)
			if m == nil {
				errf(l, "bad typeinv header")
				continue
			}
			c := mkClause(l, m[3])
			if c != nil {
				sp.TypeInvs[pkgName+"."+m[2]] = &TypeInvSpec{Var: m[1], Type: m[2], PkgName: pkgName, Clause: c}
			}
		case "axiom":
			cur = nil
			c := mkClause(l, rest)
			if c != nil {
				sp.Axioms = append(sp.Axioms, &AxiomSpec{Clause: c, PkgName: pkgName})
			}
		case "func":
			m := funcHdrRe.FindStringSubmatch(t)
			if m == nil {
				errf(l, "bad func header %q", t)
				cur = nil
				continue
			}
			key := pkgName + "."
			if m[3] != "" {
				key += m[3] + "."
			}
			key += m[4]
			cur = &FuncSpec{Key: key, PkgName: pkgName, Kind: "func", Loops: map[int]*LoopSpec{}, File: path, Line: l.line}
			if old, dup := sp.Funcs[key]; dup {
				errf(l, "duplicate contract for %s (first at line %d)", key, old.Line)
			}
			sp.Funcs[key] = cur
		case "extern", "iface", "functype":
			fs, err := parseExternHeader(rest)
			if err != nil {
				errf(l, "%v", err)
				cur = nil
				continue
			}
			fs.Kind = word
			fs.PkgName = pkgName
			fs.File = path
			fs.Line = l.line
			fs.Trusted = true
			cur = fs
			sp.Funcs[fs.Key] = cur
			if word == "functype" {
				functypeNames[lastPart(fs.Key)] = true
			}
		case "requires", "ensures", "decreases", "assigns", "ghost":
			if cur == nil {
				errf(l, "%s outside func block", word)
				continue
			}
			switch word {
			case "requires":
				if c := mkClause(l, rest); c != nil {
					cur.Requires = append(cur.Requires, c)
				}
			case "ensures":
				if c := mkClause(l, rest); c != nil {
					cur.Ensures = append(cur.Ensures, c)
				}
			case "ghost":
				// ghost NAME = EXPR after CALLEE   (NAME is bound when a call of CALLEE returns)
				m := ghostAtRe.FindStringSubmatch(rest)
				if m == nil {
					errf(l, "bad ghost clause (want: ghost NAME = EXPR after CALLEE)")
					continue
				}
				if c := mkClause(l, m[2]); c != nil {
					ga := GhostAt{Name: m[1], Clause: c, Callee: m[3], Ord: 1}
					if i := strings.Index(ga.Callee, "#"); i >= 0 {
						fmt.Sscanf(ga.Callee[i+1:], "%d", &ga.Ord)
						ga.Callee = ga.Callee[:i]
					}
					cur.GhostAt = append(cur.GhostAt, ga)
				}
			case "decreases":
				for _, part := range splitTop(rest) {
					if c := mkClause(l, part); c != nil {
						cur.Decreases = append(cur.Decreases, c)
					}
				}
			case "assigns":
				cur.AssignsSet = true
				for _, part := range splitTop(rest) {
					part = strings.TrimSpace(part)
					switch part {
					case "nothing":
					case "everything":
						cur.AssignsAll = true
					case "fresh":
						cur.Fresh = true
					default:
						if c := mkClause(l, part); c != nil {
							cur.Assigns = append(cur.Assigns, c)
						}
					}
				}
			}
		case "loop":
			if cur == nil {
				errf(l, "loop outside func block")
				continue
			}
			// loop K: invariant ... | loop K: decreases ...
			i := strings.Index(rest, ":")
			if i < 0 {
				errf(l, "bad loop clause")
				continue
			}
			k, err := strconv.Atoi(strings.TrimSpace(rest[:i]))
			if err != nil {
				errf(l, "bad loop ordinal")
				continue
			}
			body := strings.TrimSpace(rest[i+1:])
			ls := cur.Loops[k]
			if ls == nil {
				ls = &LoopSpec{}
				cur.Loops[k] = ls
			}
			switch {
			case strings.HasPrefix(body, "invariant"):
				if c := mkClause(l, strings.TrimSpace(body[len("invariant"):])); c != nil {
					ls.Invariants = append(ls.Invariants, c)
				}
			case strings.HasPrefix(body, "decreases"):
				for _, part := range splitTop(strings.TrimSpace(body[len("decreases"):])) {
					if c := mkClause(l, part); c != nil {
						ls.Decreases = append(ls.Decreases, c)
					}
				}
			default:
				errf(l, "bad loop clause %q", body)
			}
		case "licensed-html-conversion":
			if cur != nil {
				cur.HTMLLicensed = true
			}
		case "sig":
			if cur != nil {
				cur.Sig = rest
			}
		case "mutual":
			if cur != nil {
				cur.Mutual = true
			}
		case "consttable":
			if cur == nil {
				errf(l, "consttable outside func block")
				continue
			}
			i := strings.Index(rest, ":")
			if i < 0 {
				errf(l, "bad consttable (want: consttable VAR: K => V, ...)")
				continue
			}
			ct := ConstTable{Var: strings.TrimSpace(rest[:i]), Line: l.line}
			for _, part := range splitTop(rest[i+1:]) {
				kv := strings.SplitN(part, "=>", 2)
				if len(kv) != 2 {
					errf(l, "bad consttable entry %q", part)
					continue
				}
				k, v := mkClause(l, strings.TrimSpace(kv[0])), mkClause(l, strings.TrimSpace(kv[1]))
				if k != nil && v != nil {
					ct.Keys = append(ct.Keys, k)
					ct.Vals = append(ct.Vals, v)
				}
			}
			cur.Tables = append(cur.Tables, ct)
		case "acquires":
			if cur == nil {
				errf(l, "acquires outside func block")
				continue
			}
			for _, part := range splitTop(rest) {
				if c := mkClause(l, part); c != nil {
					cur.Acquires = append(cur.Acquires, c)
				}
			}
		case "readonly":
			if cur == nil {
				errf(l, "readonly outside func block")
				continue
			}
			for _, part := range splitTop(rest) {
				cur.Readonly = append(cur.Readonly, strings.TrimSpace(part))
			}
		case "owned":
			if cur == nil {
				errf(l, "owned outside func block")
				continue
			}
			for _, part := range splitTop(rest) {
				cur.Owned = append(cur.Owned, strings.TrimSpace(part))
			}
		case "assert":
			if cur == nil {
				errf(l, "assert outside func block")
				continue
			}
			m := assertAtRe.FindStringSubmatch(rest)
			if m == nil {
				errf(l, "bad assert clause (want: assert LABEL: EXPR before|after CALLEE[#k])")
				continue
			}
			if c := mkClause(l, m[1]); c != nil {
				aa := AssertAt{Clause: c, Callee: m[3], Ord: 1, After: m[2] == "after"}
				if i := strings.Index(aa.Callee, "#"); i >= 0 {
					if aa.Callee[i+1:] == "*" {
						aa.Ord = 0 // every call
					} else {
						fmt.Sscanf(aa.Callee[i+1:], "%d", &aa.Ord)
					}
					aa.Callee = aa.Callee[:i]
				}
				cur.Asserts = append(cur.Asserts, aa)
			}
		case "errprop":
			if cur == nil {
				errf(l, "errprop outside func block")
				continue
			}
			cur.ErrProp = true
			if strings.HasPrefix(rest, "tolerate") {
				cur.Tolerate = mkClause(l, strings.TrimSpace(rest[len("tolerate"):]))
			}
		case "arith":
			if cur != nil && rest == "wrap" {
				cur.ArithWrap = true
			}
		case "trusted":
			if cur != nil {
				cur.Trusted = true
			}
		case "inline":
			if cur != nil {
				cur.Inline = true
			}
		case "logged":
			if cur != nil {
				cur.Logged = true
			}
		case "noframe":
			if cur != nil {
				cur.NoFrame = true
			}
		default:
			errf(l, "unknown directive %q", word)
		}
	}
}

func stripComment(s string) string {
	inStr := byte(0)
	for i := 0; i+2 < len(s); i++ {
		c := s[i]
		if inStr != 0 {
			if c == '\\' && inStr == '"' {
				i++
			} else if c == inStr {
				inStr = 0
			}
			continue
		}
		if c == '"' || c == '`' {
			inStr = c
			continue
		}
		if c == '\'' { // char literal
			j := i + 1
			for j < len(s) && s[j] != '\'' {
				if s[j] == '\\' {
					j++
				}
				j++
			}
			i = j
			continue
		}
		if c == ' ' && s[i+1] == '/' && s[i+2] == '/' {
			return s[:i]
		}
	}
	return s
}

// splitTop splits on commas at paren depth 0.
func splitTop(s string) []string {
	var out []string
	depth := 0
	start := 0
	inStr := byte(0)
	for i := 0; i < len(s); i++ {
		c := s[i]
		if inStr != 0 {
			if c == '\\' {
				i++
			} else if c == inStr {
				inStr = 0
			}
			continue
		}
		switch c {
		case '"', '`', '\'':
			inStr = c
		case '(', '[', '{':
			depth++
		case ')', ']', '}':
			depth--
		case ',':
			if depth == 0 {
				out = append(out, strings.TrimSpace(s[start:i]))
				start = i + 1
			}
		}
	}
	if strings.TrimSpace(s[start:]) != "" {
		out = append(out, strings.TrimSpace(s[start:]))
	}
	return out
}

// parsePredHeader parses  name(a T, b U) [R] [= expr]
func parsePredHeader(s string, isPred bool) (*PredSpec, error) {
	i := strings.Index(s, "(")
	if i < 0 {
		return nil, fmt.Errorf("pred/spec: missing '('")
	}
	name := strings.TrimSpace(s[:i])
	depth := 0
	j := i
	for ; j < len(s); j++ {
		if s[j] == '(' {
			depth++
		}
		if s[j] == ')' {
			depth--
			if depth == 0 {
				break
			}
		}
	}
	if j >= len(s) {
		return nil, fmt.Errorf("pred/spec: unbalanced parens")
	}
	ps := &PredSpec{Name: name, Result: "bool"}
	for _, p := range splitTop(s[i+1 : j]) {
		p = strings.TrimSpace(p)
		k := strings.IndexAny(p, " \t")
		if k < 0 {
			return nil, fmt.Errorf("pred/spec %s: parameter %q needs a type", name, p)
		}
		ps.Params = append(ps.Params, VarDecl{Name: p[:k], Type: strings.TrimSpace(p[k:])})
	}
	rest := strings.TrimSpace(s[j+1:])
	body := ""
	if k := findTopEq(rest); k >= 0 {
		body = strings.TrimSpace(rest[k+1:])
		rest = strings.TrimSpace(rest[:k])
	}
	if rest != "" {
		ps.Result = rest
	}
	if body != "" {
		e, err := ParseExpr(body)
		if err != nil {
			return nil, err
		}
		ps.Body = e
	} else if isPred {
		// uninterpreted predicate
	}
	return ps, nil
}

func findTopEq(s string) int {
	for i := 0; i < len(s); i++ {
		if s[i] == '=' {
			if i+1 < len(s) && (s[i+1] == '=') {
				i++
				continue
			}
			if i > 0 && (s[i-1] == '!' || s[i-1] == '<' || s[i-1] == '>' || s[i-1] == '=') {
				continue
			}
			return i
		}
	}
	return -1
}

// parseExternHeader parses  pkg.name(a, b) r0, r1   or pkg.Type.name(recv, a) r
func parseExternHeader(s string) (*FuncSpec, error) {
	i := strings.Index(s, "(")
	j := strings.LastIndex(s, ")")
	if i < 0 || j < i {
		return nil, fmt.Errorf("extern: bad header %q", s)
	}
	fs := &FuncSpec{Key: strings.TrimSpace(s[:i]), Loops: map[int]*LoopSpec{}}
	for _, p := range splitTop(s[i+1 : j]) {
		fs.ParamNames = append(fs.ParamNames, strings.TrimSpace(p))
	}
	for _, r := range splitTop(s[j+1:]) {
		fs.ResNames = append(fs.ResNames, strings.TrimSpace(r))
	}
	return fs, nil
}
