package main

import (
	"encoding/json"
	"fmt"
	"os"
	"os/exec"
	"path/filepath"
	"regexp"
	"strings"
)

// tryReplay attempts to reproduce a failed obligation on the REAL code: the replay harness
// (/verif/replay/harness_test.go.txt, injected with `go test -overlay`, nothing is written into the
// repository) runs a corpus of templates / helper calls on the working tree and on a pristine copy of
// HEAD; a case that panics or hangs on the working tree, or whose outcome differs from the baseline, is
// the failing input. The verdict was already reached deductively; this only finds the witness.
func tryReplay(eng *Engine, verifDir, prop string, g *oblGroup, rec map[string]interface{}) bool {
	return tryReplayName(eng, verifDir, g.Name, rec, false)
}

// replayFamily: which slice of the corpus exercises the function an obligation belongs to.
func replayFamily(name string) string {
	switch {
	case strings.HasPrefix(name, "lexer.") || strings.HasPrefix(name, "parser.") || strings.HasPrefix(name, "ast."):
		return "parse"
	case strings.HasPrefix(name, "iterators.") || strings.HasPrefix(name, "meta.") || strings.HasPrefix(name, "text.") || strings.HasPrefix(name, "paths.") ||
		strings.Contains(name, "ranger") || strings.Contains(name, "roupBy") || strings.Contains(name, "verifDrain"):
		return "helpers"
	}
	return "render"
}

// materialDiff: the two outcomes differ in something a property speaks about - success vs failure,
// the rendered output, the 'line N:' prefix, whether the original error is still wrapped, the helper
// calls made - and not merely in the wording of an error message.
func materialDiff(cur, base string) bool {
	if cur == base {
		return false
	}
	cls := func(s string) string {
		s = strings.TrimPrefix(s, "\"")
		switch {
		case strings.HasPrefix(s, "OK"):
			return "OK"
		case strings.HasPrefix(s, "ERR"):
			return "ERR"
		case strings.HasPrefix(s, "PANIC"):
			return "PANIC"
		case strings.HasPrefix(s, "HANG"):
			return "HANG"
		}
		return "VAL"
	}
	if cls(cur) != cls(base) {
		return true
	}
	if cls(cur) != "ERR" {
		return true
	}
	key := func(s string) string {
		s = strings.TrimPrefix(s, "\"")
		k := ""
		if m := replayLineRe.FindString(s); m != "" {
			k = m
		}
		if i := strings.Index(s, " | is-sentinel="); i >= 0 {
			k += s[i:]
		}
		if i := strings.Index(s, " || "); i >= 0 {
			k += s[i:]
		}
		return k
	}
	return key(cur) != key(base)
}

var replayLineRe = regexp.MustCompile(`^ERR line \d+:`)

// tryReplayName: materialOnly is set when the replay is the deciding step (an obligation that could not
// be decided deductively - new code, or a contract that no longer binds): then only a panic, a hang or a
// material difference from HEAD counts.
func tryReplayName(eng *Engine, verifDir, name string, rec map[string]interface{}, materialOnly bool) bool {
	if os.Getenv("VERIF_NO_REPLAY") != "" {
		return false
	}
	harness := filepath.Join(verifDir, "replay", "harness_test.go.txt")
	if _, err := os.Stat(harness); err != nil {
		harness = "/verif/replay/harness_test.go.txt"
		if _, err := os.Stat(harness); err != nil {
			return false
		}
	}
	family := replayFamily(name)
	ck := family
	if materialOnly {
		ck += "/material"
	}
	if cached, ok := replayCache[ck]; ok {
		return applyReplay(cached, rec)
	}
	tmp, err := os.MkdirTemp("", "pvreplay")
	if err != nil {
		return false
	}
	defer os.RemoveAll(tmp)
	env := append(os.Environ(), "GOFLAGS=-mod=mod", "GOPROXY=off", "GOSUMDB=off", "GOTOOLCHAIN=local", "VERIF_REPLAY_FAMILY="+family)
	// working tree
	curOut := filepath.Join(tmp, "cur.txt")
	ov := filepath.Join(tmp, "ov.json")
	ovb, _ := json.Marshal(map[string]interface{}{"Replace": map[string]string{filepath.Join(eng.repo, "zz_verif_replay_test.go"): harness}})
	os.WriteFile(ov, ovb, 0o644)
	cmd := exec.Command("go", "test", "-overlay", ov, "-vet=off", "-count=1", "-timeout", "300s", "-run", "^TestVerifReplayHarness$", ".")
	cmd.Dir = eng.repo
	cmd.Env = append(env, "VERIF_REPLAY_OUT="+curOut)
	out, err := cmd.CombinedOutput()
	res := &replayOutcome{}
	if _, statErr := os.Stat(curOut); statErr != nil {
		res.note = "replay harness did not run on the working tree: " + truncate(string(out), 400)
		replayCache[ck] = res
		return applyReplay(res, rec)
	}
	_ = err
	// baseline: HEAD of the repository (or of /repo when the tree under check is a plain copy)
	baseRepo := eng.repo
	if _, e := os.Stat(filepath.Join(baseRepo, ".git")); e != nil {
		baseRepo = "/repo"
	}
	baseDir := filepath.Join(tmp, "base")
	os.MkdirAll(baseDir, 0o755)
	baseOut := filepath.Join(tmp, "base.txt")
	sh := exec.Command("sh", "-c", fmt.Sprintf("git -C %s archive HEAD | tar -x -C %s", baseRepo, baseDir))
	haveBase := sh.Run() == nil
	if haveBase {
		hb, _ := os.ReadFile(harness)
		os.WriteFile(filepath.Join(baseDir, "zz_verif_replay_test.go"), hb, 0o644)
		bc := exec.Command("go", "test", "-vet=off", "-count=1", "-timeout", "300s", "-run", "^TestVerifReplayHarness$", ".")
		bc.Dir = baseDir
		bc.Env = append(env, "VERIF_REPLAY_OUT="+baseOut)
		bc.CombinedOutput()
		if _, e := os.Stat(baseOut); e != nil {
			haveBase = false
		}
	}
	cur := readOutcomes(curOut)
	var base map[string]string
	if haveBase {
		base = readOutcomes(baseOut).m
	}
	// 1. panics / hangs that the baseline does not have
	for _, k := range cur.order {
		o := cur.m[k]
		if strings.Contains(o, "PANIC") || o == "\"HANG\"" {
			if base != nil && base[k] == o {
				continue
			}
			res.found, res.key, res.cur = true, k, o
			if base != nil {
				res.base = base[k]
			}
			res.cases = len(cur.order)
			replayCache[ck] = res
			return applyReplay(res, rec)
		}
	}
	// 2. first behavioural difference from the baseline
	if base != nil {
		for _, k := range cur.order {
			if b, ok := base[k]; ok && b != cur.m[k] && materialDiff(cur.m[k], b) {
				res.found, res.key, res.cur, res.base = true, k, cur.m[k], b
				break
			}
		}
		if !res.found && !materialOnly {
			for _, k := range cur.order {
				if b, ok := base[k]; ok && b != cur.m[k] {
					res.found, res.key, res.cur, res.base = true, k, cur.m[k], b
					break
				}
			}
		}
	}
	res.cases = len(cur.order)
	if !res.found {
		res.note = fmt.Sprintf("replay harness: %d cases on the real code, none panics, hangs or differs from the baseline (HEAD)", len(cur.order))
	}
	replayCache[ck] = res
	return applyReplay(res, rec)
}

type replayOutcome struct {
	found          bool
	key, cur, base string
	note           string
	cases          int
}

var replayCache = map[string]*replayOutcome{}

func applyReplay(r *replayOutcome, rec map[string]interface{}) bool {
	if r.found {
		parts := strings.SplitN(r.key, "\t", 2)
		in := r.key
		kind := ""
		if len(parts) == 2 {
			kind, in = parts[0], parts[1]
		}
		rec["replay"] = map[string]interface{}{
			"harness":            "/verif/replay/harness_test.go.txt (go test -overlay, in package plush)",
			"cases_run":          r.cases,
			"kind":               kind,
			"failing_input":      in,
			"outcome_on_current": r.cur,
			"outcome_on_HEAD":    r.base,
		}
		return true
	}
	rec["replay"] = map[string]interface{}{"note": r.note, "cases_run": r.cases}
	return false
}

type outcomes struct {
	order []string
	m     map[string]string
}

func readOutcomes(path string) outcomes {
	o := outcomes{m: map[string]string{}}
	b, err := os.ReadFile(path)
	if err != nil {
		return o
	}
	for _, l := range strings.Split(string(b), "\n") {
		f := strings.SplitN(l, "\t", 3)
		if len(f) != 3 {
			continue
		}
		k := f[0] + "\t" + f[1]
		if _, dup := o.m[k]; !dup {
			o.order = append(o.order, k)
		}
		o.m[k] = f[2]
	}
	return o
}
