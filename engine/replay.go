package main

// tryReplay attempts to reproduce a failed obligation on the real code.
func tryReplay(eng *Engine, verifDir, prop string, g *oblGroup, rec map[string]interface{}) bool {
	return false
}
