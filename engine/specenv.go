package main

import (
	"fmt"
	"go/constant"
	"go/types"
	"sort"
	"strings"
)

// Env evaluates spec expressions to terms.
type Env struct {
	fv      *FV
	st      *State // for emitting definitions (may be nil for pure evaluation)
	heap    map[string]Term
	epoch   int
	old     *Env
	prev    *Env            // state at the head of the current loop iteration (prev(e))
	cnt     map[string]Term // call counters (nil: entry state, all zero)
	vars    map[string]Term
	cells   func(name string) (Term, bool)
	pkgName string
	depth   int
	err     *[]string
	allocT  *Term // override for alloc heap (not used)
	rec      *[]heapUse
	noUnfold bool
	inQuant  bool
}

type heapUse struct{ name, sort string }

func (env *Env) fail(f string, a ...interface{}) Term {
	msg := fmt.Sprintf(f, a...)
	if env.err != nil {
		*env.err = append(*env.err, msg)
	}
	return Term{S: "pv_ERROR", Sort: SBool}
}

func (env *Env) with(vars map[string]Term) *Env {
	n := *env
	n.vars = vars
	return &n
}

func (env *Env) child() *Env {
	n := *env
	n.vars = make(map[string]Term, len(env.vars)+2)
	for k, v := range env.vars {
		n.vars[k] = v
	}
	return &n
}

func (env *Env) record(name, sort string) {
	if env.rec == nil {
		return
	}
	for _, u := range *env.rec {
		if u.name == name {
			return
		}
	}
	*env.rec = append(*env.rec, heapUse{name, sort})
}

func (env *Env) heapRead(name, valSort string, ref Term) Term {
	env.record(name, arraySort(SInt, valSort))
	h := env.fv.heapGet(env.heap, env.epoch, name, arraySort(SInt, valSort))
	return tSelect(h, ref, valSort)
}

func isPtr(t types.Type) (types.Type, bool) {
	if t == nil {
		return nil, false
	}
	if p, ok := t.Underlying().(*types.Pointer); ok {
		return p.Elem(), true
	}
	return nil, false
}

// selField resolves x.name through embedded fields.
func (env *Env) selField(x Term, name string) Term {
	if x.T == nil {
		return env.fail("field %s of untyped term %s", name, x.S)
	}
	obj, path, _ := types.LookupFieldOrMethod(x.T, true, nil, name)
	if obj == nil {
		// unexported fields of other packages: search manually
		path = findFieldPath(x.T, name)
		if path == nil {
			return env.fail("no field %s in %s", name, x.T)
		}
	} else if _, ok := obj.(*types.Var); !ok {
		return env.fail("%s is not a field of %s", name, x.T)
	}
	cur := x
	for _, idx := range path {
		cur = env.fieldStep(cur, idx)
	}
	return cur
}

func findFieldPath(t types.Type, name string) []int {
	if p, ok := t.Underlying().(*types.Pointer); ok {
		t = p.Elem()
	}
	st, ok := t.Underlying().(*types.Struct)
	if !ok {
		return nil
	}
	for i := 0; i < st.NumFields(); i++ {
		if st.Field(i).Name() == name {
			return []int{i}
		}
	}
	for i := 0; i < st.NumFields(); i++ {
		if st.Field(i).Embedded() {
			if p := findFieldPath(st.Field(i).Type(), name); p != nil {
				return append([]int{i}, p...)
			}
		}
	}
	return nil
}

func (env *Env) fieldStep(cur Term, idx int) Term {
	if el, ok := isPtr(cur.T); ok {
		st, ok := el.Underlying().(*types.Struct)
		if !ok {
			return env.fail("pointer to non-struct %s", cur.T)
		}
		ft := st.Field(idx).Type()
		r := env.heapRead(fieldHeapName(el, idx), env.fv.sortOf(ft), cur)
		r.T = ft
		return r
	}
	if _, ok := cur.T.Underlying().(*types.Struct); ok {
		return env.fv.structGet(cur, cur.T, idx)
	}
	return env.fail("field access on non-struct %s", cur.T)
}

func (env *Env) Eval(e Expr) Term {
	fv := env.fv
	switch x := e.(type) {
	case *EInt:
		return Term{S: mkInt(x.V).S, Sort: SInt, T: types.Typ[types.Int]}
	case *EBool:
		return mkBool(x.V)
	case *EStr:
		return fv.strConst(x.V)
	case *ENil:
		return Term{S: "0", Sort: "NIL"}
	case *EIdent:
		if t, ok := env.vars[x.Name]; ok {
			return t
		}
		if env.cells != nil {
			if t, ok := env.cells(x.Name); ok {
				return t
			}
		}
		if t, ok := env.pkgObject(env.pkgName, x.Name); ok {
			return t
		}
		return env.fail("unknown name %q", x.Name)
	case *ESel:
		if id, ok := x.X.(*EIdent); ok {
			if _, isVar := env.vars[id.Name]; !isVar {
				isCell := false
				if env.cells != nil {
					_, isCell = env.cells(id.Name)
				}
				if !isCell {
					if _, ok := fv.eng.byName[id.Name]; ok {
						if t, ok := env.pkgObject(id.Name, x.Name); ok {
							return t
						}
						return env.fail("unknown %s.%s", id.Name, x.Name)
					}
				}
			}
		}
		base := env.Eval(x.X)
		return env.selField(base, x.Name)
	case *EIndex:
		base := env.Eval(x.X)
		idx := env.Eval(x.I)
		return env.index(base, idx)
	case *ESlice:
		base := env.Eval(x.X)
		var lo, hi Term
		if x.Lo != nil {
			lo = env.Eval(x.Lo)
		} else {
			lo = mkInt(0)
		}
		if x.Hi != nil {
			hi = env.Eval(x.Hi)
		} else {
			hi = env.lenOf(base)
		}
		if base.Sort == SStr {
			r := app(SStr, "pv_sub", base, lo, hi)
			r.T = base.T
			return r
		}
		if strings.HasPrefix(base.Sort, "pv_Sl_") {
			r := fv.subSlice(base, lo, hi)
			r.T = base.T
			return r
		}
		return env.fail("slice expression on %s unsupported in specs", base.Sort)
	case *EUn:
		v := env.Eval(x.X)
		if x.Op == "!" {
			return tNot(v)
		}
		r := app(SInt, "-", v)
		r.T = v.T
		return r
	case *EBin:
		return env.evalBin(x)
	case *ECall:
		return env.evalCall(x)
	case *EQuant:
		ne := env.child()
		ne.inQuant = true
		var binds []string
		var guards []Term
		for _, v := range x.Vars {
			gt, err := fv.eng.resolveType(v.Type, env.pkgName)
			if err != nil {
				return env.fail("%v", err)
			}
			srt := fv.sortOf(gt)
			fv.nfresh++
			n := fmt.Sprintf("%s_q%d", smtName(v.Name), fv.nfresh)
			ne.vars[v.Name] = Term{S: n, Sort: srt, T: gt}
			binds = append(binds, fmt.Sprintf("(%s %s)", n, srt))
			if b, ok := gt.Underlying().(*types.Basic); ok && b.Kind() == types.Uint8 {
				guards = append(guards, Term{S: fmt.Sprintf("(and (<= 0 %s) (<= %s 255))", n, n), Sort: SBool})
			}
		}
		body := ne.Eval(x.Body)
		if x.Forall {
			body = tImp(tAnd(guards...), body)
			return Term{S: fmt.Sprintf("(forall (%s) %s)", strings.Join(binds, " "), body.S), Sort: SBool}
		}
		body = tAnd(append(guards, body)...)
		return Term{S: fmt.Sprintf("(exists (%s) %s)", strings.Join(binds, " "), body.S), Sort: SBool}
	}
	return env.fail("unsupported expression %T", e)
}

func (env *Env) pkgObject(pkgName, name string) (Term, bool) {
	p := env.fv.eng.byName[pkgName]
	if p == nil || p.Types == nil {
		return Term{}, false
	}
	obj := p.Types.Scope().Lookup(name)
	switch o := obj.(type) {
	case *types.Const:
		return env.fv.constTerm(o.Val(), o.Type()), true
	case *types.Var:
		// package-level variable: global cell heap
		srt := env.fv.sortOf(o.Type())
		gname := "G_" + smtName(pkgName+"_"+name)
		env.record(gname, srt)
		h := env.fv.heapGet(env.heap, env.epoch, gname, srt)
		h.T = o.Type()
		return h, true
	}
	return Term{}, false
}

func (fv *FV) constTerm(v constant.Value, t types.Type) Term {
	switch v.Kind() {
	case constant.Bool:
		r := mkBool(constant.BoolVal(v))
		r.T = t
		return r
	case constant.String:
		r := fv.strConst(constant.StringVal(v))
		r.T = t
		return r
	case constant.Int:
		if fv.sortOf(t) == SF64 {
			return fv.floatConst(v.ExactString(), t)
		}
		s := v.ExactString()
		if strings.HasPrefix(s, "-") {
			s = "(- " + s[1:] + ")"
		}
		return Term{S: s, Sort: SInt, T: t}
	case constant.Float:
		return fv.floatConst(v.ExactString(), t)
	}
	fv.outsidef("unsupported constant %s", v)
	return Term{S: "0", Sort: SInt, T: t}
}

func (fv *FV) floatConst(s string, t types.Type) Term {
	name := "pv_fc_" + smtName(s)
	fv.decls.Add(1, name, fmt.Sprintf("(declare-const %s pv_F64)", name))
	return Term{S: name, Sort: SF64, T: t}
}

func (env *Env) lenOf(base Term) Term {
	switch {
	case base.Sort == SStr:
		return Term{S: "(pv_len " + base.S + ")", Sort: SInt, T: types.Typ[types.Int]}
	case strings.HasPrefix(base.Sort, "pv_Sl_"):
		return Term{S: fmt.Sprintf("(%s_len %s)", base.Sort, base.S), Sort: SInt, T: types.Typ[types.Int]}
	}
	if base.T != nil {
		if _, ok := base.T.Underlying().(*types.Map); ok {
			env.fv.decls.Add(1, "pv_maplen", "(declare-fun pv_maplen (Int) Int)")
			return Term{S: "(pv_maplen " + base.S + ")", Sort: SInt, T: types.Typ[types.Int]}
		}
	}
	return env.fail("len of %s", base.Sort)
}

func (env *Env) index(base, idx Term) Term {
	fv := env.fv
	switch {
	case base.Sort == SStr:
		return Term{S: fmt.Sprintf("(pv_at %s %s)", base.S, idx.S), Sort: SInt, T: types.Typ[types.Uint8]}
	case strings.HasPrefix(base.Sort, "pv_Sl_"):
		es := fv.sliceElems[base.Sort]
		r := Term{S: fmt.Sprintf("(select (%s_arr %s) %s)", base.Sort, base.S, idx.S), Sort: es}
		if base.T != nil {
			r.T = elemType(base.T)
		}
		return r
	}
	if base.T != nil {
		if m, ok := base.T.Underlying().(*types.Map); ok {
			ks, vs := fv.sortOf(m.Key()), fv.sortOf(m.Elem())
			idx = env.coerce(idx, ks)
			mv := env.heapRead(mapValHeap(ks, vs), arraySort(ks, vs), base)
			r := tSelect(mv, idx, vs)
			r.T = m.Elem()
			return r
		}
	}
	// a ghost set (the visited set seenK of a map range): membership
	if strings.HasPrefix(base.Sort, "(Array ") && strings.HasSuffix(base.Sort, " Bool)") {
		ks := strings.TrimSuffix(strings.TrimPrefix(base.Sort, "(Array "), " Bool)")
		idx = env.coerce(idx, ks)
		return Term{S: fmt.Sprintf("(select %s %s)", base.S, idx.S), Sort: SBool, T: types.Typ[types.Bool]}
	}
	return env.fail("index of %s", base.Sort)
}

func mapValHeap(ks, vs string) string { return "M_val_" + smtName(ks) + "_" + smtName(vs) }
func mapDomHeap(ks, vs string) string { return "M_dom_" + smtName(ks) + "_" + smtName(vs) }

// coerce adapts nil / untyped literals to a sort.
func (env *Env) coerce(t Term, sort string) Term {
	if t.Sort == sort {
		return t
	}
	if t.Sort == "NIL" {
		switch {
		case sort == SInt:
			return Term{S: "0", Sort: SInt}
		case sort == SVal:
			return Term{S: "(pv_mkval 0 0)", Sort: SVal}
		case sort == SFn:
			return Term{S: "(pv_mkfn 0 0)", Sort: SFn}
		}
	}
	return t
}

func (env *Env) evalBin(x *EBin) Term {
	switch x.Op {
	case "&&":
		return tAnd(env.Eval(x.L), env.Eval(x.R))
	case "||":
		return tOr(env.Eval(x.L), env.Eval(x.R))
	case "==>":
		return tImp(env.Eval(x.L), env.Eval(x.R))
	case "<==>":
		return tEq(env.Eval(x.L), env.Eval(x.R))
	}
	l, r := env.Eval(x.L), env.Eval(x.R)
	if l.Sort == "NIL" && r.Sort != "NIL" {
		l = env.coerce(l, r.Sort)
	}
	if r.Sort == "NIL" && l.Sort != "NIL" {
		r = env.coerce(r, l.Sort)
	}
	if l.Sort == "NIL" {
		l.Sort, r.Sort = SInt, SInt
	}
	switch x.Op {
	case "==", "!=":
		if l.Sort != r.Sort {
			return env.fail("sort mismatch in %s: %s vs %s", exprString(x), l.Sort, r.Sort)
		}
		var eq Term
		if l.Sort == SVal && isNilVal(r) {
			eq = Term{S: "(= (pv_tid " + l.S + ") 0)", Sort: SBool}
		} else if r.Sort == SVal && isNilVal(l) {
			eq = Term{S: "(= (pv_tid " + r.S + ") 0)", Sort: SBool}
		} else {
			eq = tEq(l, r)
		}
		if x.Op == "!=" {
			return tNot(eq)
		}
		return eq
	case "<", "<=", ">", ">=":
		if l.Sort != SInt || r.Sort != SInt {
			return env.fail("comparison on non-int in %s", exprString(x))
		}
		return app(SBool, x.Op, l, r)
	case "+":
		if l.Sort == SStr {
			t := app(SStr, "pv_cat", l, r)
			t.T = l.T
			return t
		}
		t := app(SInt, "+", l, r)
		t.T = l.T
		return t
	case "-", "*":
		t := app(SInt, x.Op, l, r)
		t.T = l.T
		return t
	case "/":
		t := app(SInt, "pv_tdiv", l, r)
		t.T = l.T
		return t
	case "%":
		t := app(SInt, "pv_tmod", l, r)
		t.T = l.T
		return t
	}
	return env.fail("unknown operator %s", x.Op)
}

func isNilVal(t Term) bool { return t.S == "(pv_mkval 0 0)" }

func (env *Env) evalCall(x *ECall) Term {
	fv := env.fv
	switch x.Fn {
	case "old":
		if env.old == nil {
			return env.fail("old() not available here")
		}
		oe := *env.old
		// keep quantifier / pred variables visible inside old()
		merged := make(map[string]Term, len(env.vars))
		for k, v := range env.old.vars {
			merged[k] = v
		}
		for k, v := range env.vars {
			if _, ok := merged[k]; !ok {
				merged[k] = v
			}
		}
		oe.vars = merged
		oe.err = env.err
		return oe.Eval(x.Args[0])
	case "cur":
		// cur(p): the current value of a parameter the function assigns to (a bare parameter name
		// denotes its entry value)
		if id, ok := x.Args[0].(*EIdent); ok && env.cells != nil {
			if t, ok := env.cells(id.Name); ok {
				return t
			}
		}
		return env.Eval(x.Args[0])
	case "prev":
		// prev(e): e at the head of the current loop iteration (inv-pres) / of the last loop entered
		// on this path (ensures); where there is none, the current state
		if env.prev == nil {
			return env.Eval(x.Args[0])
		}
		pe := *env.prev
		merged := make(map[string]Term, len(env.vars))
		for k, v := range env.prev.vars {
			merged[k] = v
		}
		for k, v := range env.vars {
			if _, ok := merged[k]; !ok {
				merged[k] = v
			}
		}
		pe.vars = merged
		pe.err = env.err
		pe.prev = nil
		return pe.Eval(x.Args[0])
	case "calls":
		// calls(NAME) / calls("NAME"): how many calls of NAME this activation has made so far
		name := ""
		switch a := x.Args[0].(type) {
		case *EStr:
			name = a.V
		case *EIdent:
			name = a.Name
		default:
			return env.fail("calls() needs a function name")
		}
		if env.cnt != nil {
			if t, ok := env.cnt[lastPart(name)]; ok {
				return t
			}
		}
		return mkInt(0)
	case "wraps":
		// wraps(a, b): errors.Is(a, b) as far as %w wrapping establishes it
		env.fv.wrapsDecl()
		a, b := env.Eval(x.Args[0]), env.Eval(x.Args[1])
		return Term{S: "(pv_wraps " + a.S + " " + b.S + ")", Sort: SBool}
	case "len":
		return env.lenOf(env.Eval(x.Args[0]))
	case "ite":
		c, a, b := env.Eval(x.Args[0]), env.Eval(x.Args[1]), env.Eval(x.Args[2])
		a = env.coerce(a, b.Sort)
		b = env.coerce(b, a.Sort)
		return tIte(c, a, b)
	case "min", "max":
		a, b := env.Eval(x.Args[0]), env.Eval(x.Args[1])
		return Term{S: fmt.Sprintf("(pv_%s %s %s)", x.Fn, a.S, b.S), Sort: SInt, T: a.T}
	case "wrap":
		a := env.Eval(x.Args[0])
		return Term{S: "(pv_wrap " + a.S + ")", Sort: SInt, T: a.T}
	case "fresh":
		a := env.Eval(x.Args[0])
		if env.old == nil {
			return env.fail("fresh() needs an old state")
		}
		return tAnd(tNot(fv.isAlloc(env.old.heap, env.old.epoch, a)), fv.isAlloc(env.heap, env.epoch, a), tNot(tEq(a, mkInt(0))))
	case "allocated":
		a := env.Eval(x.Args[0])
		return fv.isAlloc(env.heap, env.epoch, a)
	case "has":
		// has(m, k): key k present in map m
		m, k := env.Eval(x.Args[0]), env.Eval(x.Args[1])
		mt, ok := m.T.Underlying().(*types.Map)
		if !ok {
			return env.fail("has() on non-map")
		}
		ks, vs := fv.sortOf(mt.Key()), fv.sortOf(mt.Elem())
		dom := env.heapRead(mapDomHeap(ks, vs), arraySort(ks, SBool), m)
		return tAnd(tNot(tEq(m, mkInt(0))), tSelect(dom, env.coerce(k, ks), SBool))
	case "dyn":
		// dyn(v) == tid  -- dynamic type id of an interface value
		a := env.Eval(x.Args[0])
		return Term{S: "(pv_tid " + a.S + ")", Sort: SInt}
	case "typeid":
		// typeid("*ast.Identifier")
		s, ok := x.Args[0].(*EStr)
		if !ok {
			return env.fail("typeid needs a string literal")
		}
		gt, err := fv.eng.resolveType(s.V, env.pkgName)
		if err != nil {
			return env.fail("%v", err)
		}
		return mkInt(int64(fv.eng.tid(gt)))
	case "fadd", "fsub", "fmul", "fdiv":
		a, b := env.Eval(x.Args[0]), env.Eval(x.Args[1])
		fv.decls.Add(1, "pv_"+x.Fn, fmt.Sprintf("(declare-fun pv_%s (pv_F64 pv_F64) pv_F64)", x.Fn))
		return Term{S: fmt.Sprintf("(pv_%s %s %s)", x.Fn, a.S, b.S), Sort: SF64, T: types.Typ[types.Float64]}
	case "flt", "feq":
		a, b := env.Eval(x.Args[0]), env.Eval(x.Args[1])
		fv.decls.Add(1, "pv_flt", "(declare-fun pv_flt (pv_F64 pv_F64) Bool)\n(declare-fun pv_feq (pv_F64 pv_F64) Bool)")
		return Term{S: fmt.Sprintf("(pv_%s %s %s)", x.Fn, a.S, b.S), Sort: SBool, T: types.Typ[types.Bool]}
	case "f64":
		s, ok := x.Args[0].(*EStr)
		if !ok {
			return env.fail("f64 needs a string literal")
		}
		return fv.floatConst(s.V, types.Typ[types.Float64])
	case "strlt":
		a, b := env.Eval(x.Args[0]), env.Eval(x.Args[1])
		fv.decls.Add(1, "pv_strlt", "(declare-fun pv_strlt (pv_Str pv_Str) Bool)\n(assert (forall ((a pv_Str)) (! (not (pv_strlt a a)) :pattern ((pv_strlt a a)))))")
		return Term{S: fmt.Sprintf("(pv_strlt %s %s)", a.S, b.S), Sort: SBool, T: types.Typ[types.Bool]}
	case "kindof":
		a := env.Eval(x.Args[0])
		fv.kindUsed = true
		fv.decls.Add(1, "pv_kind", "(declare-fun pv_kind (Int) Int)\n(declare-fun pv_telem (Int) Int)\n(declare-fun pv_tkey (Int) Int)\n(assert (= (pv_kind 0) 0))")
		return Term{S: "(pv_kind " + a.S + ")", Sort: SInt, T: types.Typ[types.Int]}
	case "telem", "tkey":
		a := env.Eval(x.Args[0])
		fv.kindUsed = true
		fv.decls.Add(1, "pv_kind", "(declare-fun pv_kind (Int) Int)\n(declare-fun pv_telem (Int) Int)\n(declare-fun pv_tkey (Int) Int)\n(assert (= (pv_kind 0) 0))")
		return Term{S: "(pv_" + x.Fn + " " + a.S + ")", Sort: SInt, T: types.Typ[types.Int]}
	case "evalphase":
		// true in every package except the parser: ASTs seen outside the parser come from error-free parses
		fv.decls.Add(1, "pv_evalphase", "(declare-const pv_evalphase Bool)")
		fv.usesEvalPhase = true
		return Term{S: "pv_evalphase", Sort: SBool}
	case "boundto":
		f, p := env.Eval(x.Args[0]), env.Eval(x.Args[1])
		if f.T == nil {
			return env.fail("boundto: untyped function value")
		}
		targets := fv.eng.funcTargets(f.T)
		if len(targets) == 0 {
			return env.fail("boundto: no registered targets for %s", f.T)
		}
		return fv.boundTo(f, p, targets)
	case "linestr":
		// linestr(s, n): the string s starts with "line <n>: "
		a, b := env.Eval(x.Args[0]), env.Eval(x.Args[1])
		fv.decls.Add(1, "pv_lineStr", "(declare-fun pv_lineStr (pv_Str pv_Val) Bool)")
		return Term{S: fmt.Sprintf("(pv_lineStr %s %s)", a.S, b.S), Sort: SBool}
	case "linemsg":
		a, b := env.Eval(x.Args[0]), env.Eval(x.Args[1])
		fv.decls.Add(1, "pv_lineMsg", "(declare-fun pv_lineMsg (pv_Val pv_Val) Bool)")
		return Term{S: fmt.Sprintf("(pv_lineMsg %s %s)", a.S, b.S), Sort: SBool}
	case "lineprefixed":
		a := env.Eval(x.Args[0])
		fv.decls.Add(1, "pv_linePrefixed", "(declare-fun pv_linePrefixed (pv_Str) Bool)")
		return Term{S: fmt.Sprintf("(pv_linePrefixed %s)", a.S), Sort: SBool}
	case "rvzero":
		// the zero reflect.Value (what the composite literal reflect.Value{} evaluates to)
		fv.decls.Add(1, "pv_zero_pv_RV", "(declare-const pv_zero_pv_RV pv_RV)")
		return Term{S: "pv_zero_pv_RV", Sort: SRV}
	case "trusted":
		a := env.Eval(x.Args[0])
		fv.decls.Add(1, "pv_trusted", "(declare-fun pv_trusted (pv_Str) Bool)\n(assert (pv_trusted pv_empty))")
		return Term{S: "(pv_trusted " + a.S + ")", Sort: SBool}
	case "runes":
		a := env.Eval(x.Args[0])
		return fv.strToSlice(a, types.NewSlice(types.Typ[types.Int32]))
	case "strb":
		a := env.Eval(x.Args[0])
		r := fv.sliceToStr(a, false)
		r.T = types.Typ[types.String]
		return r
	case "str":
		a := env.Eval(x.Args[0])
		r := fv.sliceToStr(a, true)
		r.T = types.Typ[types.String]
		return r
	case "rlen":
		a := env.Eval(x.Args[0])
		fv.runeDecls()
		return Term{S: "(pv_rlen " + a.S + ")", Sort: SInt, T: types.Typ[types.Int]}
	case "runeoff":
		a, b := env.Eval(x.Args[0]), env.Eval(x.Args[1])
		fv.runeDecls()
		return Term{S: fmt.Sprintf("(pv_runeoff %s %s)", a.S, b.S), Sort: SInt, T: types.Typ[types.Int]}
	case "pay":
		a := env.Eval(x.Args[0])
		return Term{S: "(pv_pay " + a.S + ")", Sort: SInt, T: types.Typ[types.Int]}
	case "isnil":
		a := env.Eval(x.Args[0])
		if a.Sort == SVal {
			return Term{S: "(= (pv_tid " + a.S + ") 0)", Sort: SBool}
		}
		if a.Sort == SFn {
			return Term{S: "(= (pv_fid " + a.S + ") 0)", Sort: SBool}
		}
		return tEq(a, mkInt(0))
	case "box":
		a := env.Eval(x.Args[0])
		if a.T == nil {
			switch a.Sort {
			case SBool:
				a.T = types.Typ[types.Bool]
			case SInt:
				a.T = types.Typ[types.Int]
			case SStr:
				a.T = types.Typ[types.String]
			default:
				return env.fail("box of untyped term")
			}
		}
		return fv.box(a, a.T)
	case "unbox":
		// unbox(v, "type")
		a := env.Eval(x.Args[0])
		s, ok := x.Args[1].(*EStr)
		if !ok {
			return env.fail("unbox needs a type string")
		}
		gt, err := fv.eng.resolveType(s.V, env.pkgName)
		if err != nil {
			return env.fail("%v", err)
		}
		return fv.unbox(a, gt)
	case "is":
		a := env.Eval(x.Args[0])
		s, ok := x.Args[1].(*EStr)
		if !ok {
			return env.fail("is() needs a type string")
		}
		gt, err := fv.eng.resolveType(s.V, env.pkgName)
		if err != nil {
			return env.fail("%v", err)
		}
		return fv.hasType(a, gt)
	}
	ps := fv.eng.specs.Preds[x.Fn]
	if ps == nil && env.pkgName != "" {
		ps = fv.eng.specs.Preds[env.pkgName+"."+x.Fn]
	}
	if ps == nil {
		return env.fail("unknown spec function %q", x.Fn)
	}
	if len(x.Args) != len(ps.Params) {
		return env.fail("%s: want %d args, got %d", x.Fn, len(ps.Params), len(x.Args))
	}
	args := make([]Term, len(x.Args))
	for i, a := range x.Args {
		args[i] = env.Eval(a)
	}
	rt, err := fv.eng.resolveType(ps.Result, ps.PkgName)
	if err != nil {
		return env.fail("%s: %v", x.Fn, err)
	}
	if ps.Ghost {
		if len(args) != 1 {
			return env.fail("ghost field %s takes one object", ps.Name)
		}
		r := env.heapRead(ghostHeapName(ps), fv.sortOf(rt), args[0])
		r.T = rt
		return r
	}
	if ps.Heap {
		return env.heapSpecCall(ps, args, rt)
	}
	if ps.Body != nil {
		if env.depth > 6 {
			return env.fail("spec macro recursion too deep in %s", x.Fn)
		}
		ne := *env
		ne.depth++
		ne.pkgName = ps.PkgName
		ne.vars = map[string]Term{}
		for i, p := range ps.Params {
			pt, err := fv.eng.resolveType(p.Type, ps.PkgName)
			if err != nil {
				return env.fail("%s: %v", x.Fn, err)
			}
			a := env.coerce(args[i], fv.sortOf(pt))
			a.T = pt
			ne.vars[p.Name] = a
		}
		ne.cells = nil
		r := ne.Eval(ps.Body)
		if r.T == nil {
			r.T = rt
		}
		return r
	}
	// uninterpreted
	name := "pv_sp_" + smtName(ps.PkgName+"_"+ps.Name)
	var ss []string
	for i, p := range ps.Params {
		pt, err := fv.eng.resolveType(p.Type, ps.PkgName)
		if err != nil {
			return env.fail("%s: %v", x.Fn, err)
		}
		s := fv.sortOf(pt)
		ss = append(ss, s)
		args[i] = env.coerce(args[i], s)
	}
	rs := fv.sortOf(rt)
	fv.decls.Add(1, name, fmt.Sprintf("(declare-fun %s (%s) %s)", name, strings.Join(ss, " "), rs))
	fv.usedSpecFns[ps.Name] = true
	r := app(rs, name, args...)
	r.T = rt
	return r
}


// heapSpecUses computes (once) the heap arrays a heap-dependent spec function reads.
func (fv *FV) heapSpecUses(ps *PredSpec) []heapUse {
	if u, ok := fv.hsUses[ps.Name]; ok {
		return u
	}
	if fv.hsBusy[ps.Name] {
		return nil
	}
	fv.hsBusy[ps.Name] = true
	var uses []heapUse
	var errs []string
	env := &Env{fv: fv, heap: map[string]Term{}, vars: map[string]Term{}, pkgName: ps.PkgName, err: &errs, rec: &uses, noUnfold: true}
	for i, p := range ps.Params {
		pt, err := fv.eng.resolveType(p.Type, ps.PkgName)
		if err != nil {
			continue
		}
		env.vars[p.Name] = Term{S: fmt.Sprintf("pv_dummy%d", i), Sort: fv.sortOf(pt), T: pt}
	}
	env.Eval(ps.Body)
	sort.Slice(uses, func(i, j int) bool { return uses[i].name < uses[j].name })
	fv.hsBusy[ps.Name] = false
	fv.hsUses[ps.Name] = uses
	return uses
}

func (env *Env) heapSpecCall(ps *PredSpec, args []Term, rt types.Type) Term {
	fv := env.fv
	if fv.hsBusy[ps.Name] {
		// pass 1 of a recursive definition: only the shape matters
		return Term{S: "pv_dummyrec", Sort: fv.sortOf(rt), T: rt}
	}
	uses := fv.heapSpecUses(ps)
	name := "pv_hs_" + smtName(ps.PkgName+"_"+ps.Name)
	var sorts []string
	var actual []Term
	for _, u := range uses {
		sorts = append(sorts, u.sort)
		env.record(u.name, u.sort)
		actual = append(actual, fv.heapGet(env.heap, env.epoch, u.name, u.sort))
	}
	vars := map[string]Term{}
	for i, p := range ps.Params {
		pt, err := fv.eng.resolveType(p.Type, ps.PkgName)
		if err != nil {
			return env.fail("%s: %v", ps.Name, err)
		}
		a := env.coerce(args[i], fv.sortOf(pt))
		a.T = pt
		vars[p.Name] = a
		sorts = append(sorts, a.Sort)
		actual = append(actual, a)
	}
	rs := fv.sortOf(rt)
	fv.decls.Add(1, name, fmt.Sprintf("(declare-fun %s (%s) %s)", name, strings.Join(sorts, " "), rs))
	r := app(rs, name, actual...)
	r.T = rt
	if env.st != nil && !env.noUnfold && !env.inQuant {
		key := r.S
		if !fv.hsUnfolded[env.st][key] {
			ne := *env
			ne.vars = vars
			ne.cells = nil
			ne.noUnfold = true
			ne.pkgName = ps.PkgName
			body := ne.Eval(ps.Body)
			body = env.coerce(body, rs)
			env.st.assume(tEq(r, body))
		}
	}
	return r
}

func ghostHeapName(ps *PredSpec) string { return "GF_" + smtName(ps.PkgName+"_"+ps.Name) }

func (fv *FV) ghostSpec(name, pkg string) *PredSpec {
	ps := fv.eng.specs.Preds[name]
	if ps == nil && pkg != "" {
		ps = fv.eng.specs.Preds[pkg+"."+name]
	}
	if ps != nil && ps.Ghost {
		return ps
	}
	return nil
}
