package main

import (
	"fmt"
	"regexp"
	"sort"
	"go/token"
	"go/types"
	"strings"

	"golang.org/x/tools/go/ssa"
)

var kthLocalRe = regexp.MustCompile(`^(\w+?)__([0-9]+)$`)

// cellsByName resolves a local variable name to its current value (top frame).
func (fv *FV) cellLookup(st *State) func(string) (Term, bool) {
	root := st.frameRoot()
	return func(name string) (Term, bool) {
		// special: ridx = completed iterations of the innermost range-index loop containing the current block
		var best *ssa.Alloc
		base, kth := name, 0
		if m := kthLocalRe.FindStringSubmatch(name); m != nil {
			// name__K: the K-th local of that name in source order (several locals may share a name)
			base = m[1]
			fmt.Sscanf(m[2], "%d", &kth)
		}
		if kth > 0 {
			var all []*ssa.Alloc
			for _, b := range fv.fn.Blocks {
				for _, in := range b.Instrs {
					if a, ok := in.(*ssa.Alloc); ok && a.Comment == base {
						all = append(all, a)
					}
				}
			}
			sort.Slice(all, func(i, j int) bool { return all[i].Pos() < all[j].Pos() })
			if kth <= len(all) {
				a := all[kth-1]
				if _, ok := st.cells[CellID{Frame: 0, A: a}]; ok {
					best = a
				} else if !fv.isHeapObject(a) {
					// declared inside a loop body that has not run yet on this path: zero value
					el := a.Type().(*types.Pointer).Elem()
					return fv.zero(el), true
				}
			}
		} else {
			for id := range st.cells {
				if id.Frame != 0 {
					continue
				}
				if a, ok := id.A.(*ssa.Alloc); ok && a.Comment == name {
					if best == nil || a.Pos() < best.Pos() {
						best = a
					}
				}
			}
		}
		if best != nil {
			cv := st.cells[CellID{Frame: 0, A: best}]
			if cv.K == VTerm {
				t := cv.T
				if t.T == nil {
					t.T = best.Type().(*types.Pointer).Elem()
				}
				return t, true
			}
		}
		if strings.HasPrefix(name, "ridx") {
			// ridx / ridxK : range index phi of loop K (default: any unique)
			for h, li := range fv.loops {
				if name != "ridx" && name != fmt.Sprintf("ridx%d", li.Ord) {
					continue
				}
				for _, in := range h.Instrs {
					if phi, ok := in.(*ssa.Phi); ok && phi.Comment == "rangeindex" {
						if v, ok := root.Regs[phi]; ok && v.K == VTerm {
							return Term{S: "(+ " + v.T.S + " 1)", Sort: SInt, T: types.Typ[types.Int]}, true
						}
					}
				}
				for c := range li.Cells {
					if a, ok := c.(*ssa.Alloc); ok && a.Comment == "rangeindex" {
						if v, ok := st.cells[CellID{Frame: 0, A: a}]; ok && v.K == VTerm {
							return Term{S: "(+ " + v.T.S + " 1)", Sort: SInt, T: types.Typ[types.Int]}, true
						}
					}
				}
			}
		}
		if name == "roff" {
			// byte offset of a string range iterator
			for _, li := range fv.loops {
				for c := range li.Cells {
					if r, ok := c.(*ssa.Range); ok {
						if cv, ok := st.cells[CellID{Frame: 0, A: r}]; ok && cv.T.Sort == SInt {
							t := cv.T
							t.T = types.Typ[types.Int]
							return t, true
						}
					}
				}
			}
		}
		if strings.HasPrefix(name, "seen") {
			// seenK: visited-set of the map range in loop K
			for _, li := range fv.loops {
				if name != "seen" && name != fmt.Sprintf("seen%d", li.Ord) {
					continue
				}
				for c := range li.Cells {
					if r, ok := c.(*ssa.Range); ok {
						if cv, ok := st.cells[CellID{Frame: 0, A: r}]; ok {
							return cv.T, true
						}
					}
				}
			}
		}
		return Term{}, false
	}
}

func (fv *FV) stateEnv(st *State, errs *[]string) *Env {
	root := st.frameRoot()
	vars := map[string]Term{}
	for _, p := range fv.fn.Params {
		if v, ok := root.Regs[p]; ok && v.K == VTerm {
			vars[p.Name()] = v.T
		}
	}
	for _, f := range fv.fn.FreeVars {
		// captured variables of a closure verified on its own: entry values
		if t, ok := fv.freeVarEntry[f.Name()]; ok {
			vars[f.Name()] = t
		}
	}
	for k, v := range st.ghosts {
		vars[k] = v
	}
	oldEnv := &Env{fv: fv, st: st, heap: map[string]Term{}, epoch: 0, vars: vars, pkgName: fv.pkgName(), err: errs}
	env := &Env{fv: fv, st: st, heap: st.heap, epoch: st.epoch, vars: map[string]Term{}, pkgName: fv.pkgName(), err: errs, old: oldEnv, cnt: st.cnt}
	if env.cnt == nil {
		env.cnt = map[string]Term{}
	}
	for k, v := range vars {
		env.vars[k] = v
	}
	if snap := st.loopSnap; snap != nil {
		pv := map[string]Term{}
		for k, v := range vars {
			pv[k] = v
		}
		for k, v := range snap.ghosts {
			pv[k] = v
		}
		pe := &Env{fv: fv, st: st, heap: snap.heap, epoch: snap.epoch, vars: pv, pkgName: fv.pkgName(), err: errs, old: oldEnv, cnt: snap.cnt}
		if pe.cnt == nil {
			pe.cnt = map[string]Term{}
		}
		pe.cells = fv.cellLookup(snap)
		env.prev = pe
	}
	return env
}

func (fv *FV) pkgName() string {
	if fv.spec != nil {
		return fv.spec.PkgName
	}
	return funcPkgName(fv.fn)
}

// enterBlock moves control to block `to`, handling phis and loop heads.
func (fv *FV) enterBlock(st *State, from, to *ssa.BasicBlock) *State {
	fr := st.frame
	// evaluate phis simultaneously
	newVals := map[ssa.Value]SymVal{}
	for _, in := range to.Instrs {
		phi, ok := in.(*ssa.Phi)
		if !ok {
			break
		}
		for i, p := range to.Preds {
			if p == from {
				newVals[phi] = fv.val(st, phi.Edges[i])
				break
			}
		}
	}
	for k, v := range newVals {
		fr.Regs[k] = v
	}
	fr.Prev = from
	fr.Block = to
	fr.Idx = 0
	if fr.ID != 0 {
		return st
	}
	li := fv.loops[to]
	if li == nil {
		return st
	}
	var errs []string
	fv.checkTypeInvs(st, loopPos(li))
	isBack := li.Body[from]
	kind := "inv-entry"
	if isBack {
		kind = "inv-pres"
	}
	env := fv.stateEnv(st, &errs)
	env.cells = fv.cellLookup(st)
	if !isBack {
		env.prev = nil // at loop entry prev(e) is e
	}
	pos := loopPos(li)
	if li.Spec != nil {
		for i, c := range li.Spec.Invariants {
			g := env.Eval(c.E)
			fv.oblige(st, kind, fmt.Sprintf("loop%d:%s", li.Ord, clauseName(c, unlabelledOrd(li.Spec.Invariants, i))), pos, g, c.Text)
		}
	}
	if isBack {
		// termination measure
		ent := st.loopsIn[to]
		if ent != nil && li.Spec != nil && len(li.Spec.Decreases) > 0 {
			var cur []Term
			for _, c := range li.Spec.Decreases {
				cur = append(cur, env.Eval(c.E))
			}
			fv.oblige(st, "dec", fmt.Sprintf("loop%d", li.Ord), pos, lexLess(cur, ent.Measure), li.Spec.Decreases[0].Text)
		}
		fv.checkErrProp(st, nil, pos)
		st.errs = nil
		fv.reportErrs(errs)
		return nil // path ends at the back edge
	}
	// C13: a range over a Go map visits entries in an unspecified order; the loop must be
	// order-insensitive (syntactic criterion, see orderInsensitive)
	if isMapRangeLoop(li) {
		ok, why := fv.orderInsensitive(li)
		goal := tTrue
		if !ok {
			goal = tFalse
		}
		fv.oblige(st, "order", fmt.Sprintf("loop%d", li.Ord), pos, goal, "range over a map must be order-insensitive: "+why)
	}
	// entry: havoc everything the loop may modify, assume invariant
	fv.havocLoop(st, li)
	fv.havocCounters(st, li)
	st.loopSnap = nil
	env = fv.stateEnv(st, &errs)
	env.cells = fv.cellLookup(st)
	if li.Spec != nil {
		for _, c := range li.Spec.Invariants {
			st.assume(env.Eval(c.E))
		}
		ent := &LoopEntry{}
		for _, c := range li.Spec.Decreases {
			m := fv.def(st, "measure", env.Eval(c.E))
			ent.Measure = append(ent.Measure, m)
		}
		st.loopsIn[to] = ent
	}
	fv.reportErrs(errs)
	st.path += fmt.Sprintf("L%d", li.Ord)
	if fv.usesPrev() {
		st.loopSnap = st.clone()
		st.loopSnap.loopSnap = nil
	}
	return st
}

// havocCounters: at a loop head every call counter the contract mentions becomes an arbitrary value not
// below its current one (the invariant says what it is).
func (fv *FV) havocCounters(st *State, li *LoopInfo) {
	var names []string
	for _, n := range fv.counterNames() {
		if loopMayCall(li, n) {
			names = append(names, n)
		}
	}
	if len(names) == 0 {
		return
	}
	nc := make(map[string]Term, len(names))
	for k, v := range st.cnt {
		nc[k] = v
	}
	for _, n := range names {
		old, ok := nc[n]
		if !ok {
			old = mkInt(0)
		}
		nv := fv.freshConst(st, "cnt_"+smtName(n), SInt, types.Typ[types.Int])
		st.assume(app(SBool, ">=", nv, old))
		nc[n] = nv
	}
	st.cnt = nc
}

// counterNames: the NAMEs of calls(NAME) anywhere in the function's contract.
func (fv *FV) counterNames() []string {
	if fv.cntNames != nil || fv.spec == nil {
		return fv.cntNames
	}
	seen := map[string]bool{}
	usesPrev := false
	var walk func(e Expr)
	walk = func(e Expr) {
		switch x := e.(type) {
		case *ECall:
			if x.Fn == "calls" && len(x.Args) == 1 {
				switch a := x.Args[0].(type) {
				case *EStr:
					seen[lastPart(a.V)] = true
				case *EIdent:
					seen[lastPart(a.Name)] = true
				}
				return
			}
			if x.Fn == "prev" {
				usesPrev = true
			}
			for _, a := range x.Args {
				walk(a)
			}
		default:
			for _, c := range exprChildren(e) {
				walk(c)
			}
		}
	}
	var cls []*Clause
	cls = append(cls, fv.spec.Requires...)
	cls = append(cls, fv.spec.Ensures...)
	for _, l := range fv.spec.Loops {
		cls = append(cls, l.Invariants...)
		cls = append(cls, l.Decreases...)
	}
	for _, a := range fv.spec.Asserts {
		cls = append(cls, a.Clause)
	}
	for _, g := range fv.spec.GhostAt {
		cls = append(cls, g.Clause)
	}
	for _, c := range cls {
		if c != nil {
			walk(c.E)
		}
	}
	fv.cntNames = sortedKeys(seen)
	if fv.cntNames == nil {
		fv.cntNames = []string{}
	}
	fv.prevUsed = usesPrev
	return fv.cntNames
}

func (fv *FV) usesPrev() bool {
	fv.counterNames()
	return fv.prevUsed
}

func (fv *FV) reportErrs(errs []string) {
	for _, e := range errs {
		fv.outsidef("contract error: %s", e)
	}
}

func clauseName(c *Clause, i int) string {
	if c.Label != "" {
		return c.Label
	}
	return fmt.Sprintf("%d", i+1)
}

// unlabelledOrd: position of clause i among the unlabelled clauses of its list (adding a labelled clause
// must not rename the others).
func unlabelledOrd(cs []*Clause, i int) int {
	n := 0
	for k := 0; k < i && k < len(cs); k++ {
		if cs[k].Label == "" {
			n++
		}
	}
	return n
}

func loopPos(li *LoopInfo) token.Pos {
	best := token.Pos(0)
	for b := range li.Body {
		for _, in := range b.Instrs {
			if p := in.Pos(); p.IsValid() && (best == 0 || p < best) {
				best = p
			}
		}
	}
	return best
}

// lexLess: cur < old lexicographically, with every component bounded below by 0 in the old state.
func lexLess(cur, old []Term) Term {
	if len(cur) == 0 || len(cur) != len(old) {
		return tFalse
	}
	var alts []Term
	for i := range cur {
		var conj []Term
		for j := 0; j < i; j++ {
			conj = append(conj, tEq(cur[j], old[j]))
		}
		conj = append(conj, app(SBool, "<", cur[i], old[i]), app(SBool, ">=", old[i], mkInt(0)))
		alts = append(alts, tAnd(conj...))
	}
	return tOr(alts...)
}

func (fv *FV) havocLoop(st *State, li *LoopInfo) {
	root := st.frameRoot()
	for c := range li.Cells {
		switch a := c.(type) {
		case *ssa.Alloc:
			id := CellID{Frame: 0, A: a}
			if _, exists := st.cells[id]; !exists && !fv.isHeapObject(a) {
				// a local declared inside the loop body: arbitrary at the loop head
				st.cells[id] = tv(fv.zero(a.Type().(*types.Pointer).Elem()))
			}
			if old, ok := st.cells[id]; ok && old.K == VTerm {
				el := a.Type().(*types.Pointer).Elem()
				nv := fv.freshConst(st, "h_"+a.Comment, old.T.Sort, el)
				fv.typeAssume(st, nv, el)
				if a.Comment == "rangeindex" {
					st.assume(app(SBool, ">=", nv, mkInt(-1)))
				}
				st.cells[id] = tv(nv)
			}
		case *ssa.Range:
			id := CellID{Frame: 0, A: a}
			if old, ok := st.cells[id]; ok {
				st.cells[id] = tv(fv.freshConst(st, "h_visited", old.T.Sort, nil))
			}
		case *ssa.Phi:
			if old, ok := root.Regs[a]; ok && old.K == VTerm {
				nv := fv.freshConst(st, "h_phi", old.T.Sort, a.Type())
				if a.Comment == "rangeindex" {
					st.assume(app(SBool, ">=", nv, mkInt(-1)))
				}
				root.Regs[a] = tv(nv)
			}
		}
	}
	if li.All {
		fv.havocAll(st)
		return
	}
	for _, name := range sortedKeys(li.Heaps) {
		st.heap[name] = fv.freshConst(st, "h_"+name, li.Heaps[name], nil)
	}
	if li.Alloc {
		fv.havocAlloc(st)
	}
}

func (fv *FV) havocAlloc(st *State) {
	old := fv.nextOf(st.heap, st.epoch)
	na := fv.freshConst(st, "pv_next", SInt, nil)
	st.assume(app(SBool, ">=", na, old))
	st.heap["pv_next"] = na
}

func (fv *FV) havocAll(st *State) {
	// keep alloc monotone
	old := fv.nextOf(st.heap, st.epoch)
	st.heap = map[string]Term{}
	fv.nfresh++
	st.epoch = fv.nfresh
	na := fv.nextOf(st.heap, st.epoch)
	st.assume(app(SBool, ">=", na, old))
	st.nonnil = map[string]bool{}
}

// ---- returns and defers --------------------------------------------------

func (fv *FV) doReturn(st *State, x *ssa.Return) *State {
	fr := st.frame
	var res []SymVal
	for _, r := range x.Results {
		res = append(res, fv.val(st, r))
	}
	if fr.Caller == nil {
		for _, r := range res {
			if r.K == VTerm {
				st.escapeTerm(r.T)
			}
		}
		fv.checkTypeInvs(st, x.Pos())
		fv.checkPost(st, x, res)
		return nil
	}
	// return into the caller
	caller := fr.Caller
	st.frame = caller
	if fr.InDefer {
		return fv.runDefers(st)
	}
	if v, ok := fr.CallInstr.(ssa.Value); ok {
		switch len(res) {
		case 0:
			caller.Regs[v] = SymVal{K: VNone}
		case 1:
			caller.Regs[v] = res[0]
		default:
			caller.Regs[v] = SymVal{K: VTuple, Elems: res}
		}
	}
	return st
}

func (fv *FV) runDefers(st *State) *State {
	fr := st.frame
	for len(fr.Defers) > 0 {
		d := fr.Defers[len(fr.Defers)-1]
		fr.Defers = fr.Defers[:len(fr.Defers)-1]
		if d.Fn.K == VClosure && fv.canInline(d.Fn.Fn) && fv.eng.specs.Funcs[funcKey(d.Fn.Fn)] == nil {
			fv.pushFrame(st, d.Fn.Fn, d.Fn.Binds, d.Args, nil, true)
			return st
		}
		if d.Fn.K == VClosure {
			// call by contract (e.g. mutex Unlock)
			var args []Term
			for i, a := range d.Args {
				args = append(args, fv.term(st, a, d.Call.Args[i].Type()))
			}
			fv.callByContract(st, d.Fn.Fn, nil, d.Call, args, d.Instr.Pos(), nil)
			continue
		}
		fv.outsidef("unsupported deferred call")
	}
	return st
}

func (fv *FV) pushFrame(st *State, fn *ssa.Function, binds []SymVal, args []SymVal, callInstr ssa.Instruction, inDefer bool) {
	nf := &Frame{ID: st.nframe, Fn: fn, Regs: map[ssa.Value]SymVal{}, Block: fn.Blocks[0], Caller: st.frame, CallInstr: callInstr, InDefer: inDefer}
	st.nframe++
	for i, p := range fn.Params {
		if i < len(args) {
			nf.Regs[p] = args[i]
		}
	}
	for i, f := range fn.FreeVars {
		if i < len(binds) {
			nf.Regs[f] = binds[i]
		}
	}
	st.frame = nf
	fv.inlined[funcKey(fn)] = true
}

// checkPost emits postcondition obligations at a top-level return.
func (fv *FV) checkPost(st *State, x *ssa.Return, res []SymVal) {
	if fv.spec == nil {
		return
	}
	var errs []string
	env := fv.stateEnv(st, &errs)
	// locals may be named in ensures clauses (guarded by what makes them meaningful): one that has not
	// been declared on this path has its zero value
	strict := fv.cellLookup(st)
	lenient := func(name string) (Term, bool) {
		if t, ok := strict(name); ok {
			return t, true
		}
		for _, b := range fv.fn.Blocks {
			for _, in := range b.Instrs {
				if a, ok := in.(*ssa.Alloc); ok && a.Comment == name && !fv.isHeapObject(a) {
					el := a.Type().(*types.Pointer).Elem()
					return fv.zero(el), true
				}
			}
		}
		return Term{}, false
	}
	env.cells = lenient
	if env.prev != nil {
		snapStrict := env.prev.cells
		env.prev.cells = func(name string) (Term, bool) {
			if snapStrict != nil {
				if t, ok := snapStrict(name); ok {
					return t, true
				}
			}
			return lenient(name)
		}
	}
	fv.bindResults(env, st, fv.fn.Signature, res, nil)
	for _, f := range fv.fn.FreeVars {
		if cv, ok := st.cells[CellID{Frame: 0, A: f}]; ok && cv.K == VTerm {
			t := cv.T
			if t.T == nil {
				t.T = f.Type().(*types.Pointer).Elem()
			}
			env.vars[f.Name()] = t
		}
	}
	{
		rs := fv.fn.Signature.Results()
		if n := rs.Len(); n > 0 && isErrorType(rs.At(n-1).Type()) && n-1 < len(res) {
			rt := fv.term(st, res[n-1], rs.At(n-1).Type())
			fv.checkErrProp(st, &rt, x.Pos())
		} else {
			fv.checkErrProp(st, nil, x.Pos())
		}
	}
	for i, c := range fv.spec.Ensures {
		if strings.HasPrefix(c.Label, "def_") {
			fv.assume("definitional clause (assumed at call sites, not checked): " + fv.short + " " + c.Label + ": " + c.Text)
			continue
		}
		g := env.Eval(c.E)
		fv.oblige(st, "post", clauseName(c, unlabelledOrd(fv.spec.Ensures, i)), x.Pos(), g, c.Text)
	}
	for name, h := range st.held {
		if h {
			fv.oblige(st, "lock", "leak:"+name, x.Pos(), tFalse, "lock still held at return")
		}
	}
	fv.reportErrs(errs)
}

func (fv *FV) bindResults(env *Env, st *State, sig *types.Signature, res []SymVal, names []string) {
	rs := sig.Results()
	for i := 0; i < rs.Len() && i < len(res); i++ {
		t := fv.term(st, res[i], rs.At(i).Type())
		if t.T == nil {
			t.T = rs.At(i).Type()
		}
		env.vars[fmt.Sprintf("result%d", i)] = t
		if i == 0 {
			env.vars["result"] = t
		}
		if n := rs.At(i).Name(); n != "" && n != "_" {
			env.vars[n] = t
		}
		if i < len(names) && names[i] != "" {
			env.vars[names[i]] = t
		}
		if i == rs.Len()-1 && rs.At(i).Name() == "" && types.TypeString(rs.At(i).Type(), nil) == "error" {
			if _, taken := env.vars["err"]; !taken {
				env.vars["err"] = t
			}
		}
	}
}

// ---- frame conditions ------------------------------------------------------

// frameCheck: a store to field idx of object ref must be licensed by the assigns clause
// (or the object was allocated during this activation).
func (fv *FV) frameCheck(st *State, ref Term, root types.Type, idx int, pos token.Pos) {
	if fv.spec == nil || fv.spec.AssignsAll || fv.spec.NoFrame {
		return
	}
	var errs []string
	env := fv.stateEnv(st, &errs)
	name := fieldHeapName(root, idx)
	if fv.wildMaps()[name] {
		return
	}
	alts := []Term{tNot(fv.allocAtEntry(ref))}
	for _, a := range fv.spec.Assigns {
		sel, ok := a.E.(*ESel)
		if !ok {
			continue
		}
		names, _, ok := fv.assignHeapStatic(a.E, fv.spec, fv.fn, nil)
		if !ok || len(names) != 1 || names[0] != name {
			continue
		}
		obj := env.old.Eval(sel.X)
		// embedded-by-pointer: selField walks pointer hops; take the last pointer before the field
		obj = fv.assignObject(env.old, sel)
		alts = append(alts, tEq(ref, obj))
	}
	fv.oblige(st, "frame", name, pos, tOr(alts...), "assigns")
}

// assignObject evaluates the object whose field an assigns target names (following embedded pointers).
func (fv *FV) assignObject(env *Env, sel *ESel) Term {
	base := env.Eval(sel.X)
	if base.T == nil {
		return base
	}
	path := findFieldPath(base.T, sel.Name)
	cur := base
	lastPtr := base
	for _, idx := range path {
		if _, ok := isPtr(cur.T); ok {
			lastPtr = cur
		}
		cur = env.fieldStep(cur, idx)
	}
	return lastPtr
}

func (fv *FV) globalFrameCheck(st *State, name string, pos token.Pos) {
	if fv.spec == nil || fv.spec.AssignsAll || fv.spec.NoFrame {
		return
	}
	for _, a := range fv.spec.Assigns {
		names, _, ok := fv.assignHeapStatic(a.E, fv.spec, fv.fn, nil)
		if ok && len(names) == 1 && names[0] == name {
			return
		}
	}
	fv.oblige(st, "frame", name, pos, tFalse, "assigns")
}

func (fv *FV) mapFrameCheck(st *State, m Term, pos token.Pos) {
	if fv.spec == nil || fv.spec.AssignsAll || fv.spec.NoFrame {
		return
	}
	if m.T != nil {
		if mt, ok := m.T.Underlying().(*types.Map); ok {
			if fv.wildMaps()[mapValHeap(fv.sortOf(mt.Key()), fv.sortOf(mt.Elem()))] {
				return
			}
		}
	}
	var errs []string
	env := fv.stateEnv(st, &errs)
	alts := []Term{tNot(fv.allocAtEntry(m))}
	for _, a := range fv.spec.Assigns {
		if c, ok := a.E.(*ECall); ok && c.Fn == "contents" && len(c.Args) == 1 {
			alts = append(alts, tEq(m, env.old.Eval(c.Args[0])))
		}
	}
	fv.oblige(st, "frame", "map", pos, tOr(alts...), "assigns")
}

// guardCheck: guarded_by discipline is implemented in locks.go (no-op until configured).
func (fv *FV) guardCheck(st *State, m ssa.Value, pos token.Pos, write bool) {
	fv.guardCheckImpl(st, m, pos, write)
}

func isMapRangeLoop(li *LoopInfo) bool {
	for c := range li.Cells {
		if r, ok := c.(*ssa.Range); ok {
			if _, isMap := r.X.Type().Underlying().(*types.Map); isMap {
				return true
			}
		}
	}
	return false
}

// orderInsensitive: the body of a map-range loop may only (a) store into another map / call a
// Set(key, value) method using the RANGE KEY as the key (a copy loop: distinct keys never collide),
// (b) call functions without side effects on the heap (assigns nothing), (c) return early.
// Anything else (evaluating sub-expressions with side effects, writing under a derived key) makes the
// result depend on the visiting order.
func (fv *FV) orderInsensitive(li *LoopInfo) (bool, string) {
	var keyVals = map[ssa.Value]bool{}
	for b := range li.Body {
		for _, in := range b.Instrs {
			if ex, ok := in.(*ssa.Extract); ok && ex.Index == 1 {
				if _, isNext := ex.Tuple.(*ssa.Next); isNext {
					keyVals[ex] = true
				}
			}
		}
	}
	// values that are loads of a local holding the key
	isKey := func(v ssa.Value) bool {
		for i := 0; i < 4; i++ {
			if keyVals[v] {
				return true
			}
			switch y := v.(type) {
			case *ssa.UnOp:
				// load of a local cell that was assigned the key
				if a, ok := y.X.(*ssa.Alloc); ok {
					for _, ref := range *a.Referrers() {
						if st, ok := ref.(*ssa.Store); ok && st.Addr == ssa.Value(a) && keyVals[st.Val] {
							return true
						}
					}
				}
				return false
			case *ssa.MakeInterface:
				v = y.X
			case *ssa.ChangeType:
				v = y.X
			default:
				return false
			}
		}
		return false
	}
	for b := range li.Body {
		for _, in := range b.Instrs {
			switch x := in.(type) {
			case *ssa.MapUpdate:
				if !isKey(x.Key) {
					return false, "map store under a key that is not the range key at " + fv.eng.pos(x.Pos())
				}
			case ssa.CallInstruction:
				c := x.Common()
				if _, isB := c.Value.(*ssa.Builtin); isB && !c.IsInvoke() {
					continue
				}
				name := ""
				if c.IsInvoke() {
					name = c.Method.Name()
				} else if f := c.StaticCallee(); f != nil {
					name = f.Name()
					if spec := fv.eng.specs.Funcs[funcKey(f)]; spec != nil && spec.AssignsSet && len(spec.Assigns) == 0 && !spec.AssignsAll && !spec.Fresh {
						continue // no heap effects
					}
					if fv.canInline(f) && fv.eng.specs.Funcs[funcKey(f)] == nil {
						continue // small pure helper, inlined
					}
				}
				if name == "Set" {
					args := c.Args
					if !c.IsInvoke() && len(args) > 0 {
						args = args[1:]
					}
					if len(args) >= 1 && isKey(args[0]) {
						continue
					}
					return false, "Set under a key that is not the range key at " + fv.eng.pos(in.Pos())
				}
				if name == "Has" || name == "Value" {
					continue
				}
				return false, "call with possible side effects (" + name + ") at " + fv.eng.pos(in.Pos())
			}
		}
	}
	return true, "copy loop keyed by the range key"
}

// loopMayCall: does the loop body contain a call that could be a call of name (by name; a call through
// a function value or a closure defined in the function counts as possibly any)?
func loopMayCall(li *LoopInfo, name string) bool {
	for b := range li.Body {
		for _, in := range b.Instrs {
			ci, ok := in.(ssa.CallInstruction)
			if !ok {
				continue
			}
			c := ci.Common()
			if c.IsInvoke() {
				if c.Method.Name() == name {
					return true
				}
				continue
			}
			if _, isB := c.Value.(*ssa.Builtin); isB {
				continue
			}
			f := c.StaticCallee()
			if f == nil {
				return true
			}
			if f.Name() == name || f.Parent() != nil {
				return true
			}
		}
	}
	return false
}
