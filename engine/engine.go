package main

import (
	"regexp"
	"fmt"
	"go/token"
	"go/types"
	"os"
	"path/filepath"
	"sort"
	"strings"

	"golang.org/x/tools/go/packages"
	"golang.org/x/tools/go/ssa"
	"golang.org/x/tools/go/ssa/ssautil"
)

const repoModule = "github.com/gobuffalo/plush/v5"

type Engine struct {
	repo   string
	fset   *token.FileSet
	prog   *ssa.Program
	pkgs   []*packages.Package
	spkgs  []*ssa.Package
	byName map[string]*packages.Package // package name -> package (repo + deps)
	specs  *Specs
	funcs  map[string]*ssa.Function // key -> function
	tids   map[string]int
	tidT   []types.Type
	fids   map[*ssa.Function]int
	fidFn  []*ssa.Function
	contractFiles []string
	targets map[string][]fnTarget
	mentioned map[string]bool
}

func LoadEngine(repo string, stdlibDir string) (*Engine, error) {
	cfg := &packages.Config{
		Mode:       packages.LoadAllSyntax,
		Dir:        repo,
		BuildFlags: []string{"-tags=verif"},
		Env:        append(os.Environ(), "GOFLAGS=-mod=mod", "GOPROXY=off", "GOSUMDB=off", "GOTOOLCHAIN=local"),
	}
	pkgs, err := packages.Load(cfg, "./...")
	if err != nil {
		return nil, err
	}
	var errs []string
	packages.Visit(pkgs, nil, func(p *packages.Package) {
		for _, e := range p.Errors {
			errs = append(errs, e.Error())
		}
	})
	if len(errs) > 0 {
		return nil, fmt.Errorf("package load errors:\n%s", strings.Join(errs, "\n"))
	}
	prog, spkgs := ssautil.AllPackages(pkgs, ssa.NaiveForm)
	prog.Build()
	e := &Engine{repo: repo, prog: prog, pkgs: pkgs, spkgs: spkgs, specs: NewSpecs(),
		byName: map[string]*packages.Package{}, funcs: map[string]*ssa.Function{},
		tids: map[string]int{}, fids: map[*ssa.Function]int{}}
	if len(pkgs) > 0 {
		e.fset = pkgs[0].Fset
	}
	packages.Visit(pkgs, nil, func(p *packages.Package) {
		if _, ok := e.byName[p.Name]; !ok || strings.HasPrefix(p.PkgPath, repoModule) {
			e.byName[p.Name] = p
		}
	})
	// stdlib specs first, then repo contract files
	if stdlibDir != "" {
		files, _ := filepath.Glob(filepath.Join(stdlibDir, "*.spec"))
		sort.Strings(files)
		for _, f := range files {
			e.specs.LoadSpecFile(f, "")
			e.contractFiles = append(e.contractFiles, f)
		}
	}
	for _, p := range pkgs {
		for _, f := range p.GoFiles {
			if strings.HasSuffix(f, "_verif.go") {
				e.specs.LoadSpecFile(f, p.Name)
				e.contractFiles = append(e.contractFiles, f)
			}
		}
	}
	for fn := range ssautil.AllFunctions(prog) {
		k := funcKey(fn)
		if k == "" {
			continue
		}
		if old, ok := e.funcs[k]; ok {
			// prefer non-synthetic
			if old.Synthetic == "" {
				continue
			}
		}
		e.funcs[k] = fn
	}
	// methods of package-level types (AllFunctions may omit methods it considers unreachable)
	for _, sp := range spkgs {
		if sp == nil {
			continue
		}
		for _, m := range sp.Members {
			t, ok := m.(*ssa.Type)
			if !ok {
				continue
			}
			for _, typ := range []types.Type{t.Type(), types.NewPointer(t.Type())} {
				ms := prog.MethodSets.MethodSet(typ)
				for i := 0; i < ms.Len(); i++ {
					fn := prog.MethodValue(ms.At(i))
					if fn == nil || fn.Synthetic != "" {
						continue
					}
					if k := funcKey(fn); k != "" {
						if _, ok := e.funcs[k]; !ok {
							e.funcs[k] = fn
						}
					}
				}
			}
		}
	}
	e.tid(nil) // reserve 0
	return e, nil
}

func funcPkgName(fn *ssa.Function) string {
	if r := fn.Signature.Recv(); r != nil {
		t := r.Type()
		if p, ok := t.(*types.Pointer); ok {
			t = p.Elem()
		}
		if n, ok := t.(*types.Named); ok && n.Obj().Pkg() != nil {
			return n.Obj().Pkg().Name()
		}
	}
	for f := fn; f != nil; f = f.Parent() {
		if f.Pkg != nil {
			return f.Pkg.Pkg.Name()
		}
	}
	if fn.Object() != nil && fn.Object().Pkg() != nil {
		return fn.Object().Pkg().Name()
	}
	return ""
}

func recvTypeName(sig *types.Signature) string {
	if r := sig.Recv(); r != nil {
		t := r.Type()
		if p, ok := t.(*types.Pointer); ok {
			t = p.Elem()
		}
		if n, ok := t.(*types.Named); ok {
			return n.Obj().Name()
		}
	}
	return ""
}

func funcKey(fn *ssa.Function) string {
	pn := funcPkgName(fn)
	if pn == "" {
		return ""
	}
	k := pn + "."
	if r := recvTypeName(fn.Signature); r != "" {
		k += r + "."
	}
	return k + fn.Name()
}

func isRepoFunc(fn *ssa.Function) bool {
	for f := fn; f != nil; f = f.Parent() {
		if f.Pkg != nil {
			return strings.HasPrefix(f.Pkg.Pkg.Path(), repoModule)
		}
	}
	if fn.Object() != nil && fn.Object().Pkg() != nil {
		return strings.HasPrefix(fn.Object().Pkg().Path(), repoModule)
	}
	return false
}

func isRepoType(t types.Type) bool {
	if n, ok := t.(*types.Named); ok && n.Obj().Pkg() != nil {
		return strings.HasPrefix(n.Obj().Pkg().Path(), repoModule)
	}
	return false
}

// tid returns a stable small integer for a Go type (0 = no type / nil interface).
func (e *Engine) tid(t types.Type) int {
	if t == nil {
		if len(e.tidT) == 0 {
			e.tidT = append(e.tidT, nil)
		}
		return 0
	}
	k := types.TypeString(t, nil)
	if id, ok := e.tids[k]; ok {
		return id
	}
	id := len(e.tidT)
	e.tids[k] = id
	e.tidT = append(e.tidT, t)
	return id
}

func (e *Engine) fid(fn *ssa.Function) int {
	if id, ok := e.fids[fn]; ok {
		return id
	}
	id := len(e.fidFn) + 1
	e.fids[fn] = id
	e.fidFn = append(e.fidFn, fn)
	return id
}

func (e *Engine) pos(p token.Pos) string {
	if !p.IsValid() {
		return "?"
	}
	ps := e.fset.Position(p)
	return fmt.Sprintf("%s:%d", strings.TrimPrefix(ps.Filename, e.repo+"/"), ps.Line)
}

// resolveType resolves Go type text in the scope of package pkgName.
func (e *Engine) resolveType(text string, pkgName string) (types.Type, error) {
	text = strings.TrimSpace(text)
	switch text {
	case "int":
		return types.Typ[types.Int], nil
	case "int64":
		return types.Typ[types.Int64], nil
	case "byte", "uint8":
		return types.Typ[types.Uint8], nil
	case "bool":
		return types.Typ[types.Bool], nil
	case "string":
		return types.Typ[types.String], nil
	case "float64":
		return types.Typ[types.Float64], nil
	case "any", "interface{}", "interface {}":
		return types.NewInterfaceType(nil, nil), nil
	case "error":
		return types.Universe.Lookup("error").Type(), nil
	}
	if strings.HasPrefix(text, "*") {
		t, err := e.resolveType(text[1:], pkgName)
		if err != nil {
			return nil, err
		}
		return types.NewPointer(t), nil
	}
	if strings.HasPrefix(text, "[]") {
		t, err := e.resolveType(text[2:], pkgName)
		if err != nil {
			return nil, err
		}
		return types.NewSlice(t), nil
	}
	if strings.HasPrefix(text, "map[") {
		depth := 0
		for i := 3; i < len(text); i++ {
			if text[i] == '[' {
				depth++
			}
			if text[i] == ']' {
				depth--
				if depth == 0 {
					k, err := e.resolveType(text[4:i], pkgName)
					if err != nil {
						return nil, err
					}
					v, err := e.resolveType(text[i+1:], pkgName)
					if err != nil {
						return nil, err
					}
					return types.NewMap(k, v), nil
				}
			}
		}
	}
	pn, name := pkgName, text
	if i := strings.Index(text, "."); i >= 0 {
		pn, name = text[:i], text[i+1:]
	}
	p := e.byName[pn]
	if home := e.byName[pkgName]; home != nil && pn != pkgName {
		for _, imp := range home.Imports {
			if imp.Name == pn {
				p = imp
			}
		}
	}
	if pn == "template" && (p == nil || p.PkgPath != "html/template") {
		packages.Visit(e.pkgs, nil, func(q *packages.Package) {
			if q.PkgPath == "html/template" {
				p = q
			}
		})
	}
	if p == nil || p.Types == nil {
		return nil, fmt.Errorf("unknown package %q in type %q", pn, text)
	}
	obj := p.Types.Scope().Lookup(name)
	if obj == nil {
		return nil, fmt.Errorf("unknown type %q", text)
	}
	if tn, ok := obj.(*types.TypeName); ok {
		return tn.Type(), nil
	}
	return nil, fmt.Errorf("%q is not a type", text)
}

func isRepoPkg(p *ssa.Package) bool {
	return p != nil && p.Pkg != nil && strings.HasPrefix(p.Pkg.Path(), repoModule)
}

var identRe = regexp.MustCompile(`[A-Za-z_][A-Za-z0-9_]*`)

// specMentions: does any contract clause, predicate, axiom, guarded_by or consttable mention this name?
func (eng *Engine) specMentions(name string) bool {
	if eng.mentioned == nil {
		eng.mentioned = map[string]bool{}
		for _, f := range eng.contractFiles {
			b, err := os.ReadFile(f)
			if err != nil {
				continue
			}
			for _, l := range strings.Split(string(b), "\n") {
				t := strings.TrimLeft(l, " \t")
				if !strings.HasPrefix(t, "//@") {
					continue
				}
				for _, w := range identRe.FindAllString(t, -1) {
					eng.mentioned[w] = true
				}
			}
		}
	}
	return eng.mentioned[name]
}
