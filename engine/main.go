package main

import (
	"flag"
	"fmt"
	"os"
	"regexp"
	"runtime"
	"sort"
	"strings"
	"time"
)

func main() {
	repo := flag.String("repo", "/repo", "repository root")
	stdlib := flag.String("stdlib", "/verif/stdlib", "stdlib spec directory")
	funcs := flag.String("funcs", "", "regex of function keys to verify (debug mode)")
	prop := flag.String("prop", "", "property id")
	tier := flag.String("tier", "quick", "quick|thorough")
	verbose := flag.Bool("v", false, "verbose")
	dump := flag.String("dump", "", "directory to dump failing queries")
	timeout := flag.Int("timeout", 10, "per-query timeout (s)")
	nosolve := flag.Bool("nosolve", false, "symbolic execution only")
	dumpAll := flag.Bool("dumpall", false, "dump all queries (with -dump)")
	updateLedger := flag.Bool("update-ledger", false, "rewrite the ledger from this run")
	verifDir := flag.String("verif", "/verif", "verif root")
	flag.Parse()

	t0 := time.Now()
	eng, err := LoadEngine(*repo, *stdlib)
	if err != nil {
		fmt.Fprintln(os.Stderr, "load error:", err)
		os.Exit(2)
	}
	for _, e := range eng.specs.Errors {
		fmt.Fprintln(os.Stderr, "contract syntax error:", e)
	}
	if len(eng.specs.Errors) > 0 {
		os.Exit(2)
	}
	if *prop != "" {
		os.Exit(runProperty(eng, *verifDir, *prop, *tier, *updateLedger, *verbose, *dump, t0))
	}
	re := regexp.MustCompile(*funcs)
	var fvs []*FV
	var keys []string
	for k := range eng.specs.Funcs {
		keys = append(keys, k)
	}
	sort.Strings(keys)
	for _, k := range keys {
		spec := eng.specs.Funcs[k]
		if spec.Kind != "func" || spec.Trusted || !re.MatchString(k) {
			continue
		}
		fn := eng.funcs[k]
		if fn == nil {
			fmt.Printf("UNBOUND contract %s (%s:%d)\n", k, spec.File, spec.Line)
			continue
		}
		fv := NewFV(eng, fn, spec)
		fv.Verify()
		fv.nameObligations()
		fvs = append(fvs, fv)
	}
	if *nosolve {
		for _, fv := range fvs {
			fmt.Printf("== %s: %d obligations, %d paths, outside=%v (%.1fs)\n", fv.short, len(fv.obls), fv.paths, fv.outside, time.Since(t0).Seconds())
		}
		return
	}
	dischargeAll(fvs, nil, time.Duration(*timeout)*time.Second, false, runtime.NumCPU())
	fail := 0
	for _, fv := range fvs {
		ok, bad := 0, 0
		for _, o := range fv.obls {
			if o.Status == "unsat" {
				ok++
			} else {
				bad++
			}
		}
		fmt.Printf("== %s: %d obligations, %d discharged, %d failed, %d paths\n", fv.short, len(fv.obls), ok, bad, fv.paths)
		for _, w := range fv.outside {
			fmt.Printf("   OUTSIDE: %s\n", w)
		}
		if fv.vacuous && *dump != "" {
			o := &Obligation{script: fv.entryScript, goal: tFalse, Name: fv.short + "#entry"}
			fmt.Printf("      entry query: %s\n", dumpQuery(*dump, fv, o, 0))
		}
		for _, w := range sortedKeys(fv.unmodelled) {
			fmt.Printf("   unmodelled-call: %s\n", w)
		}
		if *verbose {
			for _, w := range sortedKeys(fv.inlined) {
				fmt.Printf("   inlined: %s\n", w)
			}
		}
		for i, o := range fv.obls {
			if o.Status != "unsat" || *verbose {
				cand := ""
				if o.Candidate {
					cand = "+cand"
				}
				fmt.Printf("   %-8s %s  [%s %s %.2fs] path=%s %s\n", o.Status+cand, o.Name, o.Solver, o.PosStr, o.Secs, o.Path, truncate(o.Clause, 80))
				if o.Status != "unsat" {
					fail++
				}
				if o.Status != "unsat" || *dumpAll {
					if *dump != "" {
						fmt.Printf("      query: %s\n", dumpQuery(*dump, fv, o, i))
					}
					if o.Status == "error" {
						fmt.Printf("      SMT error: %s\n", strings.ReplaceAll(truncate(o.Model, 300), "\n", " "))
					}
					if o.Status == "sat" && *verbose {
						fmt.Printf("      model: %s\n", strings.ReplaceAll(truncate(o.Model, 600), "\n", " "))
					}
				}
			}
		}
	}
	fmt.Printf("total %.1fs\n", time.Since(t0).Seconds())
	if fail > 0 {
		os.Exit(1)
	}
}
