package main

import (
	"fmt"
	"go/types"
	"sort"
	"strings"
)

// Term is an SMT-LIB term with its sort and (where known) its Go type.
type Term struct {
	S    string
	Sort string
	T    types.Type
}

func (t Term) IsZero() bool { return t.S == "" }

const (
	SInt  = "Int"
	SBool = "Bool"
	SStr  = "pv_Str"
	SVal  = "pv_Val"
	SRV   = "pv_RV"
	SF64  = "pv_F64"
	SFn   = "pv_Fn"
)

var (
	tTrue  = Term{S: "true", Sort: SBool}
	tFalse = Term{S: "false", Sort: SBool}
)

func mkInt(v int64) Term {
	if v < 0 {
		return Term{S: fmt.Sprintf("(- %d)", -v), Sort: SInt}
	}
	return Term{S: fmt.Sprintf("%d", v), Sort: SInt}
}

func mkBool(b bool) Term {
	if b {
		return tTrue
	}
	return tFalse
}

func app(sort string, f string, args ...Term) Term {
	var sb strings.Builder
	sb.WriteByte('(')
	sb.WriteString(f)
	for _, a := range args {
		sb.WriteByte(' ')
		sb.WriteString(a.S)
	}
	sb.WriteByte(')')
	return Term{S: sb.String(), Sort: sort}
}

func tNot(a Term) Term {
	switch a.S {
	case "true":
		return tFalse
	case "false":
		return tTrue
	}
	if strings.HasPrefix(a.S, "(not ") {
		return Term{S: a.S[5 : len(a.S)-1], Sort: SBool}
	}
	return app(SBool, "not", a)
}

func tAnd(as ...Term) Term {
	var xs []Term
	for _, a := range as {
		if a.S == "true" {
			continue
		}
		if a.S == "false" {
			return tFalse
		}
		xs = append(xs, a)
	}
	if len(xs) == 0 {
		return tTrue
	}
	if len(xs) == 1 {
		return xs[0]
	}
	return app(SBool, "and", xs...)
}

func tOr(as ...Term) Term {
	var xs []Term
	for _, a := range as {
		if a.S == "false" {
			continue
		}
		if a.S == "true" {
			return tTrue
		}
		xs = append(xs, a)
	}
	if len(xs) == 0 {
		return tFalse
	}
	if len(xs) == 1 {
		return xs[0]
	}
	return app(SBool, "or", xs...)
}

func tImp(a, b Term) Term {
	if a.S == "true" {
		return b
	}
	if a.S == "false" || b.S == "true" {
		return tTrue
	}
	return app(SBool, "=>", a, b)
}

func tEq(a, b Term) Term {
	if a.S == b.S {
		return tTrue
	}
	return app(SBool, "=", a, b)
}

func tIte(c, a, b Term) Term {
	if c.S == "true" {
		return a
	}
	if c.S == "false" {
		return b
	}
	r := app(a.Sort, "ite", c, a, b)
	r.T = a.T
	return r
}

func tSelect(arr, idx Term, elemSort string) Term { return app(elemSort, "select", arr, idx) }
func tStore(arr, idx, v Term) Term              { return app(arr.Sort, "store", arr, idx, v) }

func arraySort(k, v string) string { return "(Array " + k + " " + v + ")" }

// arrayElem returns the element sort of "(Array K V)".
func arrayParts(s string) (string, string) {
	// parse "(Array K V)" with nested parens
	if !strings.HasPrefix(s, "(Array ") {
		return "", ""
	}
	body := s[len("(Array ") : len(s)-1]
	depth := 0
	for i := 0; i < len(body); i++ {
		switch body[i] {
		case '(':
			depth++
		case ')':
			depth--
		case ' ':
			if depth == 0 {
				return body[:i], body[i+1:]
			}
		}
	}
	return "", ""
}

// Decls collects global declarations for one function's queries.
type Decls struct {
	order []string
	text  map[string]string
	class map[string]int // 0 sorts, 1 funs, 2 axioms
}

func NewDecls() *Decls { return &Decls{text: map[string]string{}, class: map[string]int{}} }

func (d *Decls) Has(key string) bool { _, ok := d.text[key]; return ok }

func (d *Decls) Add(class int, key, text string) {
	if _, ok := d.text[key]; ok {
		return
	}
	d.text[key] = text
	d.class[key] = class
	d.order = append(d.order, key)
}

func (d *Decls) Print(sb *strings.Builder) {
	for c := 0; c <= 2; c++ {
		for _, k := range d.order {
			if d.class[k] == c {
				sb.WriteString(d.text[k])
				sb.WriteByte('\n')
			}
		}
	}
}

func smtName(s string) string {
	var sb strings.Builder
	for _, r := range s {
		switch {
		case r >= 'a' && r <= 'z', r >= 'A' && r <= 'Z', r >= '0' && r <= '9', r == '_':
			sb.WriteRune(r)
		case r == '.' || r == '/' || r == '-':
			sb.WriteByte('_')
		case r == '*':
			sb.WriteString("P")
		case r == '[':
			sb.WriteString("L")
		case r == ']':
			sb.WriteString("J")
		case r == '{' || r == '}' || r == ' ' || r == '(' || r == ')' || r == ',':
			sb.WriteString("_")
		default:
			sb.WriteString(fmt.Sprintf("u%x", r))
		}
	}
	return sb.String()
}

func smtStringLit(s string) string {
	// used only in comments/debug
	return strings.ReplaceAll(fmt.Sprintf("%q", s), "\n", "\\n")
}

func sortedKeys[M ~map[string]V, V any](m M) []string {
	ks := make([]string, 0, len(m))
	for k := range m {
		ks = append(ks, k)
	}
	sort.Strings(ks)
	return ks
}

const preludeBase = `(declare-sort pv_Str 0)
(declare-fun pv_len (pv_Str) Int)
(declare-fun pv_at (pv_Str Int) Int)
(declare-fun pv_sub (pv_Str Int Int) pv_Str)
(declare-fun pv_cat (pv_Str pv_Str) pv_Str)
(declare-fun pv_chr (Int) pv_Str)
(declare-const pv_empty pv_Str)
(declare-datatypes ((pv_Val 0)) (((pv_mkval (pv_tid Int) (pv_pay Int)))))
(declare-sort pv_RV 0)
(declare-sort pv_F64 0)
(declare-datatypes ((pv_Fn 0)) (((pv_mkfn (pv_fid Int) (pv_frecv Int)))))
(declare-fun pv_boxstr (pv_Str) Int)
(declare-fun pv_unboxstr (Int) pv_Str)
(define-fun pv_tdiv ((a Int) (b Int)) Int (ite (>= a 0) (ite (> b 0) (div a b) (- (div a (- b)))) (ite (> b 0) (- (div (- a) b)) (div (- a) (- b)))))
(define-fun pv_tmod ((a Int) (b Int)) Int (- a (* b (pv_tdiv a b))))
(define-fun pv_wrap ((x Int)) Int (- (mod (+ x 9223372036854775808) 18446744073709551616) 9223372036854775808))
(define-fun pv_min ((a Int) (b Int)) Int (ite (<= a b) a b))
(define-fun pv_max ((a Int) (b Int)) Int (ite (>= a b) a b))
(assert (= (pv_len pv_empty) 0))
(assert (forall ((s pv_Str)) (! (>= (pv_len s) 0) :pattern ((pv_len s)))))
(assert (forall ((s pv_Str) (i Int)) (! (and (<= 0 (pv_at s i)) (<= (pv_at s i) 255)) :pattern ((pv_at s i)))))
(assert (forall ((s pv_Str) (i Int) (j Int)) (! (=> (and (<= 0 i) (<= i j) (<= j (pv_len s))) (= (pv_len (pv_sub s i j)) (- j i))) :pattern ((pv_sub s i j)))))
(assert (forall ((s pv_Str) (i Int) (j Int) (k Int)) (! (=> (and (<= 0 i) (<= i j) (<= j (pv_len s)) (<= 0 k) (< k (- j i))) (= (pv_at (pv_sub s i j) k) (pv_at s (+ i k)))) :pattern ((pv_at (pv_sub s i j) k)))))
(assert (forall ((a pv_Str) (b pv_Str)) (! (= (pv_len (pv_cat a b)) (+ (pv_len a) (pv_len b))) :pattern ((pv_cat a b)))))
(assert (forall ((a pv_Str) (b pv_Str) (k Int)) (! (= (pv_at (pv_cat a b) k) (ite (< k (pv_len a)) (pv_at a k) (pv_at b (- k (pv_len a))))) :pattern ((pv_at (pv_cat a b) k)))))
(assert (forall ((a pv_Str)) (! (= (pv_cat a pv_empty) a) :pattern ((pv_cat a pv_empty)))))
(assert (forall ((a pv_Str)) (! (= (pv_cat pv_empty a) a) :pattern ((pv_cat pv_empty a)))))
(assert (forall ((a pv_Str) (b pv_Str) (c pv_Str)) (! (= (pv_cat (pv_cat a b) c) (pv_cat a (pv_cat b c))) :pattern ((pv_cat (pv_cat a b) c)))))
(assert (forall ((c Int)) (! (and (= (pv_len (pv_chr c)) 1) (=> (and (<= 0 c) (<= c 255)) (= (pv_at (pv_chr c) 0) c))) :pattern ((pv_chr c)))))
(assert (forall ((s pv_Str)) (! (= (pv_unboxstr (pv_boxstr s)) s) :pattern ((pv_boxstr s)))))
`
