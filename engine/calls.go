package main

import (
	"fmt"
	"go/token"
	"go/types"
	"sort"
	"strings"

	"golang.org/x/tools/go/ssa"
)

func (fv *FV) call(st *State, x *ssa.Call) *State {
	c := x.Common()
	if c.IsInvoke() {
		recv := fv.vterm(st, c.Value)
		if recv.Sort == SVal {
			fv.oblige(st, "nil", "invoke:"+c.Method.Name(), x.Pos(), tNot(tEq(tidOf(recv), mkInt(0))), "")
		} else {
			fv.oblige(st, "nil", "invoke:"+c.Method.Name(), x.Pos(), tNot(tEq(recv, mkInt(0))), "")
		}
		args := []Term{recv}
		for _, a := range c.Args {
			args = append(args, fv.vterm(st, a))
		}
		spec := fv.ifaceSpec(c)
		if spec == nil {
			fv.unmodelledCall(st, x, "invoke "+typeShort(c.Value.Type())+"."+c.Method.Name())
			return st
		}
		res := fv.applyContract(st, spec, nil, c, args, x.Pos(), c.Signature())
		fv.setCallResult(st, x, res)
		return st
	}
	switch v := c.Value.(type) {
	case *ssa.Builtin:
		fv.builtin(st, x, v)
		return st
	case *ssa.Function:
		return fv.staticCall(st, x, v, nil)
	case *ssa.MakeClosure:
		sv := fv.val(st, v)
		return fv.staticCall(st, x, sv.Fn, sv.Binds)
	}
	// dynamic call through a register
	sv := fv.val(st, c.Value)
	if sv.K == VClosure {
		return fv.staticCall(st, x, sv.Fn, sv.Binds)
	}
	if targets := fv.eng.funcTargets(c.Value.Type()); len(targets) > 0 && fv.functypeSpec(c.Value.Type()) == nil {
		return fv.dynDispatch(st, x, sv, targets)
	}
	if spec := fv.functypeSpec(c.Value.Type()); spec != nil {
		fnv := fv.term(st, sv, c.Value.Type())
		fv.oblige(st, "nil", "funcvalue", x.Pos(), tNot(tEq(Term{S: "(pv_fid " + fnv.S + ")", Sort: SInt}, mkInt(0))), "")
		args := []Term{fnv}
		for _, a := range c.Args {
			args = append(args, fv.vterm(st, a))
		}
		res := fv.applyContract(st, spec, nil, c, args, x.Pos(), c.Signature())
		fv.setCallResult(st, x, res)
		return st
	}
	fv.unmodelledCall(st, x, "dynamic call of "+typeShort(c.Value.Type()))
	return st
}

func (fv *FV) setCallResult(st *State, x *ssa.Call, res []Term) {
	switch len(res) {
	case 0:
		st.frame.Regs[x] = SymVal{K: VNone}
	case 1:
		st.frame.Regs[x] = tv(res[0])
	default:
		var es []SymVal
		for _, r := range res {
			es = append(es, tv(r))
		}
		st.frame.Regs[x] = SymVal{K: VTuple, Elems: es}
	}
}

func (fv *FV) unmodelledCall(st *State, x *ssa.Call, what string) {
	fv.unmodelled[what] = true
	for k := range st.local {
		st.escape(k)
	}
	fv.havocAll(st)
	sig := x.Common().Signature()
	var res []Term
	for i := 0; i < sig.Results().Len(); i++ {
		t := sig.Results().At(i).Type()
		r := fv.freshConst(st, "um", fv.sortOf(t), t)
		fv.typeAssume(st, r, t)
		res = append(res, r)
	}
	fv.setCallResult(st, x, res)
}

func (fv *FV) staticCall(st *State, x *ssa.Call, fn *ssa.Function, binds []SymVal) *State {
	c := x.Common()
	key := funcKey(fn)
	spec := fv.eng.specs.Funcs[key]
	// implicit precondition of pointer-receiver methods: receiver non-nil
	if fn.Signature.Recv() != nil && len(c.Args) > 0 {
		if _, ok := c.Args[0].Type().Underlying().(*types.Pointer); ok && isRepoFunc(fn) {
			rv := fv.val(st, c.Args[0])
			if rv.K == VTerm {
				fv.nonNil(st, rv.T, x.Pos(), "receiver")
			}
		}
	}
	if spec != nil && !spec.Inline {
		var args []Term
		for _, a := range c.Args {
			args = append(args, fv.vterm(st, a))
		}
		fv.curBinds = binds
		res := fv.callByContract(st, fn, spec, c, args, x.Pos(), x)
		fv.curBinds = nil
		fv.setCallResult(st, x, res)
		return st
	}
	if fn.Synthetic != "" && strings.HasSuffix(fn.Name(), "$bound") && len(binds) == 1 {
		// bound method closure invoked directly
		if target := fv.boundTarget(fn); target != nil {
			nx := *x
			_ = nx
			args := []SymVal{binds[0]}
			for _, a := range c.Args {
				args = append(args, fv.val(st, a))
			}
			return fv.callFn(st, x, target, nil, args)
		}
	}
	var args []SymVal
	for _, a := range c.Args {
		args = append(args, fv.val(st, a))
	}
	return fv.callFn(st, x, fn, binds, args)
}

func (fv *FV) boundTarget(fn *ssa.Function) *ssa.Function {
	for _, b := range fn.Blocks {
		for _, in := range b.Instrs {
			if c, ok := in.(*ssa.Call); ok {
				return c.Common().StaticCallee()
			}
		}
	}
	return nil
}

func (fv *FV) callFn(st *State, x *ssa.Call, fn *ssa.Function, binds []SymVal, args []SymVal) *State {
	key := funcKey(fn)
	if spec := fv.eng.specs.Funcs[key]; spec != nil && !spec.Inline {
		var ts []Term
		for i, a := range args {
			var t types.Type
			if i < len(fn.Params) {
				t = fn.Params[i].Type()
			}
			ts = append(ts, fv.term(st, a, t))
		}
		res := fv.callByContract(st, fn, spec, x.Common(), ts, x.Pos(), x)
		fv.setCallResult(st, x, res)
		return st
	}
	if fv.canInline(fn) {
		depth := 0
		for f := st.frame; f != nil; f = f.Caller {
			depth++
			if f.Fn == fn {
				depth = 100
			}
		}
		if depth < 8 {
			fv.pushFrame(st, fn, binds, args, x, false)
			return st
		}
	}
	if isRepoFunc(fn) {
		// a repository function without contract that cannot be inlined (it has a loop or is too big):
		// what follows the call on this path is verified against an arbitrary heap
		fv.uncontracted[key] = true
	}
	fv.unmodelledCall(st, x, key)
	return st
}

func (fv *FV) callByContract(st *State, fn *ssa.Function, spec *FuncSpec, c *ssa.CallCommon, args []Term, pos token.Pos, x *ssa.Call) []Term {
	if spec == nil {
		spec = fv.eng.specs.Funcs[funcKey(fn)]
	}
	if spec == nil {
		fv.unmodelled[funcKey(fn)] = true
		fv.havocAll(st)
		return nil
	}
	return fv.applyContract(st, spec, fn, c, args, pos, fn.Signature)
}

// applyContract: assert pre, havoc assigns, assume post. args include the receiver first.
func (fv *FV) applyContract(st *State, spec *FuncSpec, fn *ssa.Function, c *ssa.CallCommon, args []Term, pos token.Pos, sig *types.Signature) []Term {
	spec.Used = true
	fv.calleesByContract[spec.Key] = true
	fv.siteAsserts(st, lastPart(spec.Key), false, nil, args, pos)
	for _, a := range args {
		st.escapeTerm(a)
	}
	if spec.Kind != "extern" {
		fv.checkTypeInvs(st, pos)
	}
	var errs []string
	vars := map[string]Term{}
	if fn != nil && spec.Kind == "func" {
		for i, p := range fn.Params {
			if i < len(args) {
				a := args[i]
				if a.T == nil {
					a.T = p.Type()
				}
				vars[p.Name()] = a
			}
		}
	} else {
		// extern / iface / functype: names from the header; types from the call
		var ptypes []types.Type
		if c != nil && c.IsInvoke() {
			ptypes = append(ptypes, c.Value.Type())
		} else if spec.Kind == "functype" && c != nil {
			ptypes = append(ptypes, c.Value.Type())
		} else if sig != nil && sig.Recv() != nil {
			ptypes = append(ptypes, sig.Recv().Type())
		}
		if sig != nil {
			for i := 0; i < sig.Params().Len(); i++ {
				ptypes = append(ptypes, sig.Params().At(i).Type())
			}
		}
		for i, n := range spec.ParamNames {
			if i < len(args) {
				a := args[i]
				if a.T == nil && i < len(ptypes) {
					a.T = ptypes[i]
				}
				vars[n] = a
			}
		}
	}
	// closure called by contract: its captured variables are the caller's cells
	type capt struct {
		name string
		cell CellID
		typ  types.Type
	}
	var capts []capt
	if fn != nil && len(fv.curBinds) == len(fn.FreeVars) {
		for i, f := range fn.FreeVars {
			b := fv.curBinds[i]
			if b.K == VCellPtr && len(b.Path) == 0 {
				if cv, ok := st.cells[b.Cell]; ok && cv.K == VTerm {
					t := cv.T
					if t.T == nil {
						t.T = f.Type().(*types.Pointer).Elem()
					}
					vars[f.Name()] = t
					capts = append(capts, capt{f.Name(), b.Cell, f.Type().(*types.Pointer).Elem()})
				}
			}
		}
	}
	pre := &Env{fv: fv, st: st, heap: st.heap, epoch: st.epoch, vars: vars, pkgName: spec.PkgName, err: &errs}
	short := spec.Key
	for i, cl := range spec.Requires {
		g := pre.Eval(cl.E)
		fv.oblige(st, "pre", short+":"+clauseName(cl, unlabelledOrd(spec.Requires, i)), pos, g, cl.Text)
	}
	// termination of recursion: callee measure strictly below the caller's entry measure
	if fn != nil && len(spec.Decreases) > 0 && fv.spec != nil && len(fv.spec.Decreases) == len(spec.Decreases) && (fn == fv.fn || fv.spec.Mutual) {
		var cur, old []Term
		ent := fv.entryEnv(st, &errs)
		ent.heap, ent.epoch = map[string]Term{}, 0
		for i, d := range spec.Decreases {
			cur = append(cur, pre.Eval(d.E))
			old = append(old, ent.Eval(fv.spec.Decreases[i].E))
		}
		fv.oblige(st, "dec", "recursion", pos, lexLess(cur, old), spec.Decreases[0].Text)
	}
	// lock ghost state
	fv.lockEffect(st, spec, args, pos)
	for _, a := range spec.Acquires {
		// the callee locks this mutex itself: calling it while holding the mutex (in either mode)
		// self-deadlocks (Mutex) or can deadlock with a pending writer (RWMutex read lock)
		m := pre.Eval(a.E)
		heldNow := false
		for k, h := range st.held {
			if h && (k == m.S || k == "R:"+m.S) {
				heldNow = true
			}
		}
		goal := tTrue
		if heldNow {
			goal = tFalse
		}
		fv.oblige(st, "lock", "held-at-call:"+short, pos, goal, "callee acquires "+a.Text+": the caller must not hold it")
	}
	// snapshot, havoc
	oldHeap := make(map[string]Term, len(st.heap))
	for k, v := range st.heap {
		oldHeap[k] = v
	}
	oldEnv := &Env{fv: fv, st: st, heap: oldHeap, epoch: st.epoch, vars: vars, pkgName: spec.PkgName, err: &errs}
	if spec.AssignsAll {
		fv.havocAll(st)
	} else {
		for _, a := range spec.Assigns {
			fv.havocTarget(st, oldEnv, a, spec, pos)
		}
		if spec.Fresh {
			fv.havocAlloc(st)
		}
	}
	// the caller's own frame must license the callee's effects
	fv.calleeFrameCheck(st, oldEnv, spec, pos)
	// results
	var res []Term
	post := &Env{fv: fv, st: st, heap: st.heap, epoch: st.epoch, vars: map[string]Term{}, pkgName: spec.PkgName, err: &errs, old: oldEnv}
	for k, v := range vars {
		post.vars[k] = v
	}
	// captured variables named in the assigns clause get new values
	for _, cp := range capts {
		for _, a := range spec.Assigns {
			if id, ok := a.E.(*EIdent); ok && id.Name == cp.name {
				nv := fv.freshConst(st, "hv_"+cp.name, fv.sortOf(cp.typ), cp.typ)
				fv.typeAssume(st, nv, cp.typ)
				st.cells[cp.cell] = tv(nv)
				post.vars[cp.name] = nv
			}
		}
	}
	if sig != nil {
		rs := sig.Results()
		for i := 0; i < rs.Len(); i++ {
			t := rs.At(i).Type()
			r := fv.freshConst(st, "r_"+lastPart(spec.Key), fv.sortOf(t), t)
			fv.typeAssume(st, r, t)
			res = append(res, r)
			post.vars[fmt.Sprintf("result%d", i)] = r
			if i == 0 {
				post.vars["result"] = r
			}
			if n := rs.At(i).Name(); n != "" && n != "_" {
				post.vars[n] = r
			}
			if i < len(spec.ResNames) && spec.ResNames[i] != "" {
				post.vars[spec.ResNames[i]] = r
			}
			if i == rs.Len()-1 && rs.At(i).Name() == "" && types.TypeString(t, nil) == "error" {
				if _, taken := post.vars["err"]; !taken {
					post.vars["err"] = r
				}
			}
		}
	}
	// ghost variables of the callee are existentially quantified for the caller
	for _, g := range spec.GhostAt {
		var proto Term
		if id, ok := g.Clause.E.(*EIdent); ok && (id.Name == "callresult" || id.Name == "callresult1") {
			ri := 0
			if id.Name == "callresult1" {
				ri = 1
			}
			for k, f := range fv.eng.funcs {
				if lastPart(k) == g.Callee && funcPkgName(f) == spec.PkgName && f.Signature.Results().Len() > ri {
					t := f.Signature.Results().At(ri).Type()
					proto = Term{Sort: fv.sortOf(t), T: t}
					break
				}
			}
			if proto.Sort == "" {
				if t := calleeResultType(fn, g.Callee, ri); t != nil {
					proto = Term{Sort: fv.sortOf(t), T: t}
				}
			}
		} else {
			proto = pre.Eval(g.Clause.E)
		}
		if proto.Sort == "" {
			continue
		}
		gv := fv.freshConst(st, "ghost_"+g.Name, proto.Sort, proto.T)
		post.vars[g.Name] = gv
	}
	for _, cl := range spec.Ensures {
		// a clause that speaks about the callee's own locals (trace clauses over its loops) says
		// nothing a caller can use: it is not assumed here
		saved := post.err
		var cerrs []string
		post.err = &cerrs
		t := post.Eval(cl.E)
		post.err = saved
		internal := false
		for _, e := range cerrs {
			if strings.HasPrefix(e, "unknown name") {
				internal = true
			}
		}
		if internal {
			continue
		}
		errs = append(errs, cerrs...)
		st.assume(t)
	}
	fv.formatFacts(st, spec, c, args, res)
	if n := len(res); n > 0 && sig != nil && isErrorType(sig.Results().At(n-1).Type()) {
		strict := spec.Kind == "func" || spec.Kind == "iface" || spec.Kind == "functype"
		fv.recordErr(st, res[n-1], tTrue, spec.Key, pos, strict)
	}
	for _, e := range errs {
		fv.outsidef("contract error at call of %s: %s", spec.Key, e)
	}
	fv.bindGhosts(st, lastPart(spec.Key), res)
	fv.siteAsserts(st, lastPart(spec.Key), true, res, args, pos)
	return res
}

// siteAsserts: assert LABEL: EXPR before|after CALLEE[#k] - obligations at a call site of the function
// under verification (top-level frame only). "before" is evaluated before the callee's precondition is
// checked, with the ordinal the call is about to get; "after" once its postcondition has been assumed.
func (fv *FV) siteAsserts(st *State, callee string, after bool, res []Term, args []Term, pos token.Pos) {
	if fv.spec == nil || len(fv.spec.Asserts) == 0 || st.frame == nil || st.frame.ID != 0 {
		return
	}
	ord := st.callCount[callee]
	if !after {
		ord++
	}
	for i, a := range fv.spec.Asserts {
		if a.After != after || a.Callee != callee || (a.Ord != 0 && a.Ord != ord) {
			continue
		}
		var errs []string
		env := fv.stateEnv(st, &errs)
		env.cells = fv.cellLookup(st)
		if len(res) > 0 {
			env.vars["callresult"] = res[0]
		}
		if len(res) > 1 {
			env.vars["callresult1"] = res[1]
		}
		for k, av := range args {
			// callarg0 is the receiver of a method call, callarg1.. the arguments
			env.vars[fmt.Sprintf("callarg%d", k)] = av
		}
		g := env.Eval(a.Clause.E)
		if len(errs) > 0 {
			// an assert that names a local which does not exist on this path (another branch's loop
			// variable) is not about this path; if the local is gone from the function altogether the
			// obligation disappears and the ledger reports it as undecided
			unknown := false
			for _, e := range errs {
				if strings.HasPrefix(e, "unknown name") {
					unknown = true // the errors after it are its consequences
				}
			}
			if unknown {
				continue
			}
		}
		fv.oblige(st, "assert", clauseName(a.Clause, i), pos, g, a.Clause.Text)
		fv.reportErrs(errs)
	}
}

// bindGhosts: ghost NAME = EXPR after CALLEE
func (fv *FV) bindGhosts(st *State, callee string, res []Term) {
	if fv.spec == nil || st.frame == nil || st.frame.ID != 0 {
		return
	}
	if st.callCount == nil {
		st.callCount = map[string]int{}
	} else {
		nc := make(map[string]int, len(st.callCount)+1)
		for k, v := range st.callCount {
			nc[k] = v
		}
		st.callCount = nc
	}
	st.callCount[callee]++
	if names := fv.counterNames(); len(names) > 0 {
		for _, n := range names {
			if n != callee {
				continue
			}
			nc := make(map[string]Term, len(st.cnt)+1)
			for k, v := range st.cnt {
				nc[k] = v
			}
			old, ok := nc[n]
			if !ok {
				old = mkInt(0)
			}
			nc[n] = fv.def(st, "cnt_"+smtName(n), Term{S: "(+ " + old.S + " 1)", Sort: SInt, T: types.Typ[types.Int]})
			st.cnt = nc
		}
	}
	for _, g := range fv.spec.GhostAt {
		if g.Callee != callee || g.Ord != st.callCount[callee] {
			continue
		}
		var errs []string
		env := fv.stateEnv(st, &errs)
		env.cells = fv.cellLookup(st)
		if len(res) > 0 {
			env.vars["callresult"] = res[0]
		}
		if len(res) > 1 {
			env.vars["callresult1"] = res[1]
		}
		t := fv.def(st, "ghost_"+g.Name, env.Eval(g.Clause.E))
		if st.ghosts == nil {
			st.ghosts = map[string]Term{}
		}
		if st.ghostBound == nil {
			st.ghostBound = map[string]bool{}
		}
		if !st.ghostBound[g.Name] {
			st.ghosts[g.Name] = t
			nb := make(map[string]bool, len(st.ghostBound)+1)
			for k, v := range st.ghostBound {
				nb[k] = v
			}
			nb[g.Name] = true
			st.ghostBound = nb
		}
		fv.reportErrs(errs)
	}
}

func lastPart(s string) string {
	if i := strings.LastIndex(s, "."); i >= 0 {
		return s[i+1:]
	}
	return s
}

// havocTarget havocs one assigns target in the caller's state.
func (fv *FV) havocTarget(st *State, env *Env, a *Clause, spec *FuncSpec, pos token.Pos) {
	switch x := a.E.(type) {
	case *ESel:
		base := env.Eval(x.X)
		if base.T == nil {
			fv.outsidef("assigns target %s: untyped base", a.Text)
			return
		}
		path := findFieldPath(base.T, x.Name)
		if path == nil {
			fv.outsidef("assigns target %s: no such field", a.Text)
			return
		}
		cur := base
		for i, idx := range path {
			el, isP := isPtr(cur.T)
			if i == len(path)-1 {
				if !isP {
					fv.outsidef("assigns target %s: not a heap location", a.Text)
					return
				}
				stt := el.Underlying().(*types.Struct)
				ft := stt.Field(idx).Type()
				nv := fv.freshConst(st, "hv_"+x.Name, fv.sortOf(ft), ft)
				fv.typeAssume(st, nv, ft)
				fv.heapStorePath(st, cur, el, []int{idx}, nv)
				return
			}
			if isP {
				if _, nested := el.Underlying().(*types.Struct).Field(idx).Type().Underlying().(*types.Struct); nested {
					// field inside an embedded struct value: havoc the whole embedded value
					stt := el.Underlying().(*types.Struct)
					ft := stt.Field(idx).Type()
					nv := fv.freshConst(st, "hv_"+x.Name, fv.sortOf(ft), ft)
					fv.heapStorePath(st, cur, el, []int{idx}, nv)
					return
				}
			}
			cur = env.fieldStep(cur, idx)
		}
	case *ECall:
		if x.Fn == "anyobj" {
			names, sorts, ok := fv.assignHeapStatic(a.E, spec, nil, nil)
			if !ok {
				fv.outsidef("bad anyobj() target %s", a.Text)
				return
			}
			for i, n := range names {
				old := fv.heapGet(st.heap, st.epoch, n, sorts[i])
				nh := fv.freshConst(st, "hv_"+n, sorts[i], nil)
				// the callee cannot reach objects of this activation that have not escaped
				_, vs := arrayParts(sorts[i])
				for _, l := range sortedKeys(st.local) {
					st.assume(tEq(tSelect(nh, Term{S: l, Sort: SInt}, vs), tSelect(old, Term{S: l, Sort: SInt}, vs)))
				}
				st.heap[n] = nh
			}
			return
		}
		if gs := fv.ghostSpec(x.Fn, spec.PkgName); gs != nil && len(x.Args) == 1 {
			obj := env.Eval(x.Args[0])
			rt, _ := fv.eng.resolveType(gs.Result, gs.PkgName)
			name := ghostHeapName(gs)
			vs := fv.sortOf(rt)
			h := fv.heapGet(st.heap, st.epoch, name, arraySort(SInt, vs))
			st.heap[name] = fv.def(st, name, tStore(h, obj, fv.freshConst(st, "hv_"+gs.Name, vs, rt)))
			return
		}
		if x.Fn == "mapsof" {
			names, sorts, ok := fv.assignHeapStatic(a.E, spec, nil, nil)
			if !ok {
				fv.outsidef("bad mapsof() target %s", a.Text)
				return
			}
			for i, n := range names {
				st.heap[n] = fv.freshConst(st, "hv_"+n, sorts[i], nil)
			}
			return
		}
		if x.Fn == "contents" && len(x.Args) == 1 {
			m := env.Eval(x.Args[0])
			mt, ok := m.T.Underlying().(*types.Map)
			if !ok {
				fv.outsidef("contents() of non-map in assigns")
				return
			}
			ks, vs := fv.sortOf(mt.Key()), fv.sortOf(mt.Elem())
			dn, vn := mapDomHeap(ks, vs), mapValHeap(ks, vs)
			dh := fv.heapGet(st.heap, st.epoch, dn, arraySort(SInt, arraySort(ks, SBool)))
			vh := fv.heapGet(st.heap, st.epoch, vn, arraySort(SInt, arraySort(ks, vs)))
			st.heap[dn] = fv.def(st, dn, tStore(dh, m, fv.freshConst(st, "hv_dom", arraySort(ks, SBool), nil)))
			st.heap[vn] = fv.def(st, vn, tStore(vh, m, fv.freshConst(st, "hv_val", arraySort(ks, vs), nil)))
			return
		}
		fv.outsidef("unsupported assigns target %s", a.Text)
	case *EIdent:
		names, sorts, ok := fv.assignHeapStatic(a.E, spec, nil, nil)
		if ok && len(names) == 1 {
			st.heap[names[0]] = fv.freshConst(st, "hv_"+x.Name, sorts[0], nil)
			return
		}
		if fv.isFreeVarName(spec, x.Name) {
			return // captured variable of a closure: handled by the caller of havocTarget
		}
		fv.outsidef("unsupported assigns target %s", a.Text)
	default:
		fv.outsidef("unsupported assigns target %s", a.Text)
	}
}

// calleeFrameCheck: every location the callee may assign must be assignable by the caller.
func (fv *FV) calleeFrameCheck(st *State, calleeOld *Env, spec *FuncSpec, pos token.Pos) {
	if fv.spec == nil || fv.spec.AssignsAll || fv.spec.NoFrame {
		return
	}
	if spec.AssignsAll {
		fv.oblige(st, "frame", "callee:"+spec.Key, pos, tFalse, "callee assigns everything")
		return
	}
	var errs []string
	env := fv.stateEnv(st, &errs)
	for _, a := range spec.Assigns {
		switch x := a.E.(type) {
		case *ESel:
			obj := fv.assignObject(calleeOld, x)
			cn, _, ok := fv.assignHeapStaticTerm(calleeOld, x)
			if !ok {
				continue
			}
			if fv.wildMaps()[cn] {
				continue
			}
			alts := []Term{tNot(fv.allocAtEntry(obj))}
			for _, mine := range fv.spec.Assigns {
				ms, ok := mine.E.(*ESel)
				if !ok {
					continue
				}
				mn, _, ok := fv.assignHeapStatic(mine.E, fv.spec, fv.fn, nil)
				if !ok || len(mn) != 1 || mn[0] != cn {
					continue
				}
				alts = append(alts, tEq(obj, fv.assignObject(env.old, ms)))
			}
			fv.oblige(st, "frame", "callee:"+spec.Key+":"+x.Name, pos, tOr(alts...), "assigns")
		case *ECall:
			if gs := fv.ghostSpec(x.Fn, spec.PkgName); gs != nil && len(x.Args) == 1 {
				obj := calleeOld.Eval(x.Args[0])
				alts := []Term{tNot(fv.allocAtEntry(obj))}
				for _, mine := range fv.spec.Assigns {
					if mc, ok := mine.E.(*ECall); ok && len(mc.Args) == 1 {
						if mg := fv.ghostSpec(mc.Fn, fv.spec.PkgName); mg == gs {
							alts = append(alts, tEq(obj, env.old.Eval(mc.Args[0])))
						}
					}
				}
				fv.oblige(st, "frame", "callee:"+spec.Key+":"+gs.Name, pos, tOr(alts...), "assigns")
				continue
			}
			if x.Fn == "mapsof" || x.Fn == "anyobj" {
				names, _, ok := fv.assignHeapStatic(a.E, spec, nil, nil)
				if ok && !fv.wildMaps()[names[0]] {
					fv.oblige(st, "frame", "callee:"+spec.Key+":"+x.Fn, pos, tFalse, "assigns")
				}
				continue
			}
			if x.Fn == "contents" && len(x.Args) == 1 {
				m := calleeOld.Eval(x.Args[0])
				if mt, ok := m.T.Underlying().(*types.Map); ok {
					if fv.wildMaps()[mapValHeap(fv.sortOf(mt.Key()), fv.sortOf(mt.Elem()))] {
						continue
					}
				}
				alts := []Term{tNot(fv.allocAtEntry(m))}
				for _, mine := range fv.spec.Assigns {
					if mc, ok := mine.E.(*ECall); ok && mc.Fn == "contents" {
						alts = append(alts, tEq(m, env.old.Eval(mc.Args[0])))
					}
				}
				fv.oblige(st, "frame", "callee:"+spec.Key+":contents", pos, tOr(alts...), "assigns")
			}
		case *EIdent:
			if fv.isFreeVarName(spec, x.Name) {
				continue
			}
			ok := false
			for _, mine := range fv.spec.Assigns {
				if mi, isId := mine.E.(*EIdent); isId && mi.Name == x.Name {
					ok = true
				}
			}
			if !ok {
				fv.oblige(st, "frame", "callee:"+spec.Key+":"+x.Name, pos, tFalse, "assigns")
			}
		}
	}
}

// assignHeapStaticTerm: heap name of a selector target using evaluated (typed) terms.
func (fv *FV) assignHeapStaticTerm(env *Env, x *ESel) (string, string, bool) {
	base := env.Eval(x.X)
	if base.T == nil {
		return "", "", false
	}
	path := findFieldPath(base.T, x.Name)
	cur := base
	for i, idx := range path {
		el, isP := isPtr(cur.T)
		if isP {
			stt, ok := el.Underlying().(*types.Struct)
			if !ok {
				return "", "", false
			}
			if i == len(path)-1 {
				return fieldHeapName(el, idx), fv.sortOf(stt.Field(idx).Type()), true
			}
			if _, nested := stt.Field(idx).Type().Underlying().(*types.Struct); nested {
				return fieldHeapName(el, idx), fv.sortOf(stt.Field(idx).Type()), true
			}
		}
		cur = env.fieldStep(cur, idx)
	}
	return "", "", false
}

// ---- builtins ---------------------------------------------------------------

func (fv *FV) builtin(st *State, x *ssa.Call, b *ssa.Builtin) {
	c := x.Common()
	switch b.Name() {
	case "len":
		a := fv.vterm(st, c.Args[0])
		switch {
		case a.Sort == SStr:
			st.frame.Regs[x] = tv(Term{S: "(pv_len " + a.S + ")", Sort: SInt, T: types.Typ[types.Int]})
		case strings.HasPrefix(a.Sort, "pv_Sl_"):
			st.frame.Regs[x] = tv(Term{S: fmt.Sprintf("(%s_len %s)", a.Sort, a.S), Sort: SInt, T: types.Typ[types.Int]})
		default:
			fv.decls.Add(1, "pv_maplen", "(declare-fun pv_maplen (Int) Int)")
			st.frame.Regs[x] = tv(Term{S: "(pv_maplen " + a.S + ")", Sort: SInt, T: types.Typ[types.Int]})
		}
		if r := st.frame.Regs[x]; r.K == VTerm {
			fv.maxLenDecl()
			st.assume(Term{S: "(<= " + r.T.S + " pv_maxlen)", Sort: SBool})
		}
	case "cap":
		a := fv.vterm(st, c.Args[0])
		r := fv.freshConst(st, "cap", SInt, types.Typ[types.Int])
		if strings.HasPrefix(a.Sort, "pv_Sl_") {
			st.assume(Term{S: fmt.Sprintf("(>= %s (%s_len %s))", r.S, a.Sort, a.S), Sort: SBool})
		}
		st.frame.Regs[x] = tv(r)
	case "append":
		fv.appendAliasCheck(st, x)
		s := fv.vterm(st, c.Args[0])
		t := fv.vterm(st, c.Args[1])
		if t.Sort == SStr {
			fv.outsidef("append(bytes, string...)")
			st.frame.Regs[x] = tv(s)
			return
		}
		// result: fresh array; prefix = s, tail = t
		es := fv.sliceElems[s.Sort]
		// fast path: appended slice has constant length 1 (varargs of one element)
		na := fv.freshConst(st, "app", arraySort(SInt, es), nil)
		fv.nfresh++
		q := fmt.Sprintf("k_q%d", fv.nfresh)
		sl := fmt.Sprintf("(%s_len %s)", s.Sort, s.S)
		tl := fmt.Sprintf("(%s_len %s)", t.Sort, t.S)
		st.assume(Term{S: fmt.Sprintf("(forall ((%s Int)) (! (and (=> (and (<= 0 %s) (< %s %s)) (= (select %s %s) (select (%s_arr %s) %s))) (=> (and (<= %s %s) (< %s (+ %s %s))) (= (select %s %s) (select (%s_arr %s) (- %s %s))))) :pattern ((select %s %s))))",
			q, q, q, sl, na.S, q, s.Sort, s.S, q, sl, q, q, sl, tl, na.S, q, t.Sort, t.S, q, sl, na.S, q), Sort: SBool})
		if m := append(st.mentions(s.S), st.mentions(t.S)...); len(m) > 0 {
			if st.aliases == nil {
				st.aliases = map[string][]string{}
			}
			st.aliases[na.S] = m
		}
		r := Term{S: fmt.Sprintf("(%s_mk %s (+ %s %s))", s.Sort, na.S, sl, tl), Sort: s.Sort, T: x.Type()}
		st.frame.Regs[x] = tv(fv.def(st, "appended", r))
	case "ssa:wrapnilchk":
		a := fv.val(st, c.Args[0])
		if a.K == VTerm {
			fv.nonNil(st, a.T, x.Pos(), "wrapnilchk")
		}
		st.frame.Regs[x] = a
	case "delete":
		m := fv.vterm(st, c.Args[0])
		k := fv.vterm(st, c.Args[1])
		ks, vs, _ := fv.mapSorts(c.Args[0].Type())
		fv.mapFrameCheck(st, m, x.Pos())
		dn := mapDomHeap(ks, vs)
		dh := fv.heapGet(st.heap, st.epoch, dn, arraySort(SInt, arraySort(ks, SBool)))
		st.heap[dn] = fv.def(st, dn, tStore(dh, m, tStore(tSelect(dh, m, arraySort(ks, SBool)), k, tFalse)))
	case "ssa:deferstack":
		st.frame.Regs[x] = SymVal{K: VNone}
	case "print", "println":
	default:
		fv.outsidef("builtin %s", b.Name())
		if x.Type() != nil {
			st.frame.Regs[x] = tv(fv.freshConst(st, "bi", fv.sortOf(x.Type()), x.Type()))
		}
	}
}

// wildMaps: map heaps this function may assign wholesale (assigns mapsof("...")).
func (fv *FV) wildMaps() map[string]bool {
	out := map[string]bool{}
	if fv.spec == nil {
		return out
	}
	for _, a := range fv.spec.Assigns {
		if c, ok := a.E.(*ECall); ok && (c.Fn == "mapsof" || c.Fn == "anyobj") {
			if names, _, ok := fv.assignHeapStatic(a.E, fv.spec, nil, nil); ok {
				for _, n := range names {
					out[n] = true
				}
			}
		}
	}
	return out
}

// ---- calls through function tables (named func types with a statically known target set) ----

type fnTarget struct {
	Fn      *ssa.Function // the function that runs
	HasRecv bool          // bound method: receiver = pv_frecv of the value
	FidOf   *ssa.Function // function whose id the value carries (the $bound wrapper or Fn itself)
}

// funcTargets: every function converted to the named func type t anywhere in t's package.
func (e *Engine) funcTargets(t types.Type) []fnTarget {
	n, ok := t.(*types.Named)
	if !ok || n.Obj().Pkg() == nil {
		return nil
	}
	if _, ok := n.Underlying().(*types.Signature); !ok {
		return nil
	}
	key := n.Obj().Pkg().Path() + "." + n.Obj().Name()
	if e.targets == nil {
		e.targets = map[string][]fnTarget{}
	}
	if ts, ok := e.targets[key]; ok {
		return ts
	}
	var out []fnTarget
	seen := map[*ssa.Function]bool{}
	add := func(v ssa.Value) {
		var f *ssa.Function
		switch y := v.(type) {
		case *ssa.MakeClosure:
			f = y.Fn.(*ssa.Function)
		case *ssa.Function:
			f = y
		}
		if f == nil || seen[f] {
			return
		}
		seen[f] = true
		tg := fnTarget{Fn: f, FidOf: f}
		if f.Synthetic != "" && strings.HasSuffix(f.Name(), "$bound") {
			for _, b := range f.Blocks {
				for _, in := range b.Instrs {
					if c, ok := in.(*ssa.Call); ok && c.Common().StaticCallee() != nil {
						tg.Fn = c.Common().StaticCallee()
						tg.HasRecv = true
					}
				}
			}
		}
		out = append(out, tg)
	}
	for _, sp := range e.spkgs {
		if sp == nil || sp.Pkg.Path() != n.Obj().Pkg().Path() {
			continue
		}
		var fns []*ssa.Function
		for _, m := range sp.Members {
			if f, ok := m.(*ssa.Function); ok {
				fns = append(fns, f)
			}
		}
		for _, f := range e.funcs {
			if f.Pkg == sp || (f.Parent() != nil && f.Parent().Pkg == sp) {
				fns = append(fns, f)
			}
		}
		for _, f := range fns {
			for _, b := range f.Blocks {
				for _, in := range b.Instrs {
					if ct, ok := in.(*ssa.ChangeType); ok && types.Identical(ct.Type(), t) {
						add(ct.X)
					}
				}
			}
		}
	}
	sort.Slice(out, func(i, j int) bool { return out[i].Fn.Pos() < out[j].Fn.Pos() })
	e.targets[key] = out
	return out
}

// boundTo: f is one of the registered targets of its func type, bound to receiver p where it has one.
func (fv *FV) boundTo(f Term, p Term, targets []fnTarget) Term {
	var alts []Term
	fid := Term{S: "(pv_fid " + f.S + ")", Sort: SInt}
	recv := Term{S: "(pv_frecv " + f.S + ")", Sort: SInt}
	for _, tg := range targets {
		c := tEq(fid, mkInt(int64(fv.eng.fid(tg.FidOf))))
		if tg.HasRecv {
			c = tAnd(c, tEq(recv, p))
		}
		alts = append(alts, c)
	}
	return tOr(alts...)
}

func (fv *FV) dynDispatch(st *State, x *ssa.Call, sv SymVal, targets []fnTarget) *State {
	c := x.Common()
	fnv := fv.term(st, sv, c.Value.Type())
	fid := Term{S: "(pv_fid " + fnv.S + ")", Sort: SInt}
	fv.oblige(st, "nil", "funcvalue", x.Pos(), tNot(tEq(fid, mkInt(0))), "")
	var idAlts []Term
	for _, tg := range targets {
		idAlts = append(idAlts, tEq(fid, mkInt(int64(fv.eng.fid(tg.FidOf)))))
	}
	fv.oblige(st, "dyn-target", typeShort(c.Value.Type()), x.Pos(), tOr(idAlts...), "the called value is one of the functions registered for this func type")
	var args []SymVal
	for _, a := range c.Args {
		args = append(args, fv.val(st, a))
	}
	// one path per target; the first continues in st, the others are queued as forks
	var first *State
	for i, tg := range targets {
		ns := st
		if i < len(targets)-1 {
			ns = st.clone()
		}
		ns.assume(tEq(fid, mkInt(int64(fv.eng.fid(tg.FidOf)))))
		ns.path += fmt.Sprintf("D%d", i)
		full := args
		if tg.HasRecv {
			recv := Term{S: "(pv_frecv " + fnv.S + ")", Sort: SInt, T: tg.Fn.Params[0].Type()}
			recv = fv.def(ns, "recv", recv)
			ns.assume(fv.isAlloc(ns.heap, ns.epoch, recv))
			full = append([]SymVal{tv(recv)}, args...)
		}
		res := fv.callFn(ns, x, tg.Fn, nil, full)
		if i == len(targets)-1 {
			first = res
		} else if res != nil {
			fv.pendingForks = append(fv.pendingForks, res)
		}
	}
	return first
}

func (fv *FV) isFreeVarName(spec *FuncSpec, name string) bool {
	fn := fv.eng.funcs[spec.Key]
	if fn == nil {
		return false
	}
	for _, f := range fn.FreeVars {
		if f.Name() == name {
			return true
		}
	}
	return false
}

// appendAliasCheck: slices are modelled as values (array, length), so an append that writes into a
// backing array which is also reachable from the heap would change data behind the model's back. The
// idiom `x.f = append(x.f, v)` is fine (the only other reference is the field being replaced); an append
// to a slice loaded from a field or a package variable (possibly re-sliced, e.g. `buf := x.f[:0]`) whose
// result goes anywhere else is the obligation #alias:append (decided on the program text).
func (fv *FV) appendAliasCheck(st *State, x *ssa.Call) {
	if st.frame == nil || st.frame.ID != 0 || len(x.Call.Args) == 0 {
		return
	}
	// cells of locals: value stored into a cell -> follow loads of that cell back to what was stored
	var root func(v ssa.Value, depth int) ssa.Value
	root = func(v ssa.Value, depth int) ssa.Value {
		if depth > 16 {
			return v
		}
		switch y := v.(type) {
		case *ssa.Slice:
			return root(y.X, depth+1)
		case *ssa.ChangeType:
			return root(y.X, depth+1)
		case *ssa.Call:
			if b, ok := y.Call.Value.(*ssa.Builtin); ok && b.Name() == "append" && len(y.Call.Args) > 0 {
				return root(y.Call.Args[0], depth+1)
			}
		case *ssa.UnOp:
			if y.Op == token.MUL {
				if al, ok := y.X.(*ssa.Alloc); ok && !fv.isHeapObject(al) {
					// a local variable: what was stored into it (first store in source order that is not an
					// append of itself)
					var first ssa.Value
					for _, r := range *al.Referrers() {
						if stv, ok := r.(*ssa.Store); ok && stv.Addr == al {
							if first == nil || stv.Pos() < first.Pos() {
								first = stv.Val
							}
						}
					}
					if first != nil && first != v {
						return root(first, depth+1)
					}
				}
			}
		}
		return v
	}
	r := root(x.Call.Args[0], 0)
	ld, isLoad := r.(*ssa.UnOp)
	if !isLoad || ld.Op != token.MUL {
		return // literal, make, nil, parameter, call result: not a heap-resident slice as far as this rule goes
	}
	var src ssa.Value
	switch a := ld.X.(type) {
	case *ssa.FieldAddr:
		src = a
	case *ssa.Global:
		src = a
	default:
		return
	}
	sameTarget := func(addr ssa.Value) bool {
		switch a := addr.(type) {
		case *ssa.Global:
			g, ok := src.(*ssa.Global)
			return ok && g == a
		case *ssa.FieldAddr:
			f, ok := src.(*ssa.FieldAddr)
			if !ok || f.Field != a.Field {
				return false
			}
			// same base object: same SSA value, or loads of the same cell / parameter
			if f.X == a.X {
				return true
			}
			l1, ok1 := f.X.(*ssa.UnOp)
			l2, ok2 := a.X.(*ssa.UnOp)
			return ok1 && ok2 && l1.X == l2.X
		}
		return false
	}
	// where does the result go? directly into the same field / variable, or through a local that is
	// finally stored there - accept only the direct idiom and the idiom via the same local cell
	okUse := false
	for _, ref := range *x.Referrers() {
		if stv, ok := ref.(*ssa.Store); ok && stv.Val == x && sameTarget(stv.Addr) {
			okUse = true
		}
	}
	goal := tTrue
	if !okUse {
		goal = tFalse
	}
	fv.oblige(st, "owned", "append-shared", x.Pos(), goal, "append to a slice that lives in the heap must replace that very field (shared backing array)")
}
