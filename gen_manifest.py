#!/usr/bin/env python3
"""Regenerates /verif/MANIFEST.json from props.json + manifest_meta.json."""
import json, subprocess
props = json.load(open('/verif/props.json'))
meta = json.load(open('/verif/manifest_meta.json'))
allp = [json.loads(l)['id'] for l in open('/verif/properties.jsonl')]
hooks = subprocess.run(['git','-C','/repo','log','--format=%H %s'],capture_output=True,text=True).stdout.splitlines()
hook_commits = [l.split()[0] for l in hooks if 'verif hook' in l]
checks = []
for pid in allp:
    if pid not in props or pid in meta.get('not_applicable', {}):
        continue
    m = meta['checks'].get(pid, {})
    checks.append({
        "property_id": pid,
        "quick_cmd": f"/verif/check {pid} --tier quick",
        "thorough_cmd": f"/verif/check {pid} --tier thorough",
        "evidence_file": f"/verif/evidence/{pid}.json",
        "replay_cmd_template": f"/verif/check {pid} --replay {{path}}",
        "engine": "plushvc",
        "level_claimed": {"category": props[pid].get('level','proof'), "text": m.get('text',''), "design_ref": m.get('design_ref','DESIGN.md section 7/'+pid)},
        "level_note": m.get('note',''),
        "technique": m.get('technique', "contract-based deductive verification: weakest-precondition style VCs generated from go/ssa (naive form) of /repo against //@ contracts, discharged by z3/cvc5"),
    })
na = []
for pid in allp:
    if pid not in [c['property_id'] for c in checks]:
        na.append({"property_id": pid, "reason": meta.get('not_applicable', {}).get(pid, "not yet claimed: contracts for this property are not built yet")})
man = {
 "version": 1,
 "setup_cmd": "cd /verif/engine && GOFLAGS=-mod=mod GOPROXY=off GOSUMDB=off GOTOOLCHAIN=local go build -o /verif/bin/plushvc .",
 "hooks": {"guard": "verif", "enable": "go build -tags verif ./... (contracts_verif.go files: comments + ghost client functions only)",
           "baseline_off_cmd": "cd /repo && GOFLAGS=-mod=mod go test -vet=off -count=1 ./...",
           "source_commits": hook_commits, "add_only": True},
 "engines": [{"name": "plushvc", "path": "/verif/engine", "serves_properties": [c['property_id'] for c in checks],
              "kind_free_text": "home-grown deductive verifier: forward symbolic execution of go/ssa naive form, function-by-function against //@ contracts, SMT (z3-new, z3, cvc5)"}],
 "checks": checks,
 "notes": meta.get('notes',''),
 "not_applicable": na,
}
json.dump(man, open('/verif/MANIFEST.json','w'), indent=1)
print(len(checks), "checks,", len(na), "not applicable")
