#!/bin/bash
# selftest/run_harmless.sh [PATCH...] : every behaviour-preserving patch of the must-pass corpus, applied to
# a scratch copy of the repository (outside /repo and /verif, removed afterwards), must leave every
# registered check at exit 0 without a VIOLATION line. Prints one line per (patch, property) that alarms.
export GOFLAGS=-mod=mod GOPROXY=off GOSUMDB=off GOTOOLCHAIN=local
V="$(cd "$(dirname "$0")/.." && pwd)"
SRC="${SELFTEST_SRC:-/repo}"
BIN="${PVBIN:-$V/bin/plushvc}"
patches="$@"; [ -z "$patches" ] && patches=$(ls "$V"/selftest/harmless/*.patch)
props=${HARMLESS_PROPS:-$(python3 -c "import json;print(' '.join(sorted(json.load(open('$V/props.json')))))")}
fail=0
for patch in $patches; do
  [ -f "$patch" ] || patch="$V/selftest/harmless/$patch.patch"; patch=$(realpath "$patch")
  scratch=$(mktemp -d /tmp/pvharm.XXXXXX)
  (cd "$SRC" && git ls-files -z | xargs -0 cp --parents -t "$scratch")
  if ! (cd "$scratch" && patch -s -p1 < "$patch"); then echo "STALE  $(basename $patch)"; fail=1; rm -rf "$scratch"; continue; fi
  if ! (cd "$scratch" && go build ./... 2>/dev/null); then echo "NOBUILD $(basename $patch)"; rm -rf "$scratch"; fail=1; continue; fi
  if ! (cd "$scratch" && go test -vet=off -count=1 ./... >/dev/null 2>&1); then echo "SUITE-FAILS $(basename $patch)"; rm -rf "$scratch"; fail=1; continue; fi
  bad=""
  for p in $props; do
    ev=$(mktemp -d /tmp/pvharmv.XXXXXX)
    mkdir -p $ev/ledger; cp "$V/props.json" "$V/known_findings.jsonl" $ev/; cp "$V/ledger/$p.json" $ev/ledger/; cp -r "$V/replay" $ev/
    out=$("$BIN" -repo "$scratch" -stdlib "$V/stdlib" -verif "$ev" -prop $p -tier quick 2>&1); rc=$?
    if [ $rc -ne 0 ] || echo "$out" | grep -q '^VIOLATION'; then
      bad="$bad $p"; echo "ALARM  $(basename $patch) $p (rc=$rc): $(echo "$out" | grep -E '^(VIOLATION|ENGINE)' | head -1 | cut -c1-200)"; fail=1
    fi
    rm -rf "$ev"
  done
  [ -z "$bad" ] && echo "QUIET  $(basename $patch): all of [$props] exit 0"
  rm -rf "$scratch"
done
exit $fail
