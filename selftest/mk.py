#!/usr/bin/env python3
"""Builds the must-fail corpus: each entry = (property, name, file, old, new). Patches are written as
unified diffs against /repo HEAD into /verif/selftest/<prop>/<name>.patch."""
import subprocess, os, sys, tempfile, shutil
M = [
 ("C01","drop-string-escape","compiler.go",'	case string, ast.Printable, bool:\n		bb.Write(unsafeGetBytes(template.HTMLEscaper(t)))','	case ast.Printable, bool:\n		bb.Write(unsafeGetBytes(template.HTMLEscaper(t)))\n	case string:\n		bb.Write(unsafeGetBytes(t))'),
 ("C01","strings-raw","compiler.go",'	case []string:\n		for _, ii := range t {\n			c.write(bb, ii)\n		}','	case []string:\n		for _, ii := range t {\n			bb.Write(unsafeGetBytes(ii))\n		}'),
 ("C01","html-twice","compiler.go",'	case template.HTML:\n		bb.Write(unsafeGetBytes(string(t)))','	case template.HTML:\n		bb.Write(unsafeGetBytes(string(t)))\n		bb.Write(unsafeGetBytes(string(t)))'),
 ("C01","contentof-wraps-data","helpers/content/of.go",'		return template.HTML(body), nil','		return template.HTML(body + name), nil'),
 ("C03","readhtml-overrun","lexer/lexer.go",'			l.readChar()\n			l.readChar()\n			continue','			l.readChar()\n			l.readChar()'),
 ("C03","skipws-no-progress","lexer/lexer.go",'	for l.ch == \' \' || l.ch == \'\\t\' || l.ch == \'\\n\' || l.ch == \'\\r\' {\n		l.readChar()\n	}','	for l.ch == \' \' || l.ch == \'\\t\' || l.ch == \'\\n\' || l.ch == \'\\r\' {\n		l.position = l.position\n	}'),
 ("C03","readident-slice","lexer/lexer.go",'	for isLetter(l.ch) || isDigit(l.ch) {\n		l.readChar()\n	}\n	return l.input[position:l.position]','	for isLetter(l.ch) || isDigit(l.ch) {\n		l.readChar()\n	}\n	return l.input[position : l.position+1]'),
 ("C04","index-bound","compiler.go",'			if i < 0 || rv.Len()-1 < i {\n				err = fmt.Errorf("array index out of bounds, got index %d, while array size is %d", index, rv.Len())','			if i < 0 || rv.Len() < i {\n				err = fmt.Errorf("array index out of bounds, got index %d, while array size is %d", index, rv.Len())'),
 ("C04","arity-check","compiler.go",'	if len(args) < len(node.Parameters) {','	if len(args)+1 < len(node.Parameters) {'),
 ("C04","nil-time","compiler.go",'		if t != nil {\n			c.write(bb, *t)\n		}','		c.write(bb, *t)'),
 ("C05","drop-array-error","compiler.go",'		i, err := c.evalExpression(e)\n		if err != nil {\n			return nil, err\n		}\n\n		res = append(res, i)','		i, _ := c.evalExpression(e)\n\n		res = append(res, i)'),
 ("C05","infix-tolerates-all","compiler.go",'		if !isUnknownIdentifier(err, operand) {\n			return false\n		}','		if err == nil {\n			return false\n		}'),
 ("C05","compile-partial-output","compiler.go",'			return "", fmt.Errorf("line %d: %w", s.T().LineNumber, err)','			return bb.String(), fmt.Errorf("line %d: %w", s.T().LineNumber, err)'),
 ("C06","swap-lt-le","compiler.go",'	case "<":\n		return l < r, nil\n	case ">":\n		return l > r, nil\n	case "!=":\n		return l != r, nil\n	case ">=":\n		return l >= r, nil\n	case "<=":\n		return l <= r, nil\n	case "==":\n		return l == r, nil\n	}\n	return nil, fmt.Errorf("unknown operator for integer %s", op)','	case "<":\n		return l <= r, nil\n	case ">":\n		return l > r, nil\n	case "!=":\n		return l != r, nil\n	case ">=":\n		return l >= r, nil\n	case "<=":\n		return l < r, nil\n	case "==":\n		return l == r, nil\n	}\n	return nil, fmt.Errorf("unknown operator for integer %s", op)'),
 ("C06","div-zero-ok","compiler.go",'		if r == 0 {\n			return nil, fmt.Errorf("division by zero %v %s %v", l, op, r)\n		}\n		return l / r, nil\n	case "*":\n		return l * r, nil\n	case "<":\n		return l < r, nil\n	case ">":\n		return l > r, nil\n	case "!=":\n		return l != r, nil\n	case ">=":\n		return l >= r, nil\n	case "<=":\n		return l <= r, nil\n	case "==":\n		return l == r, nil\n	}\n	return nil, fmt.Errorf("unknown operator for integer %s", op)','		if r == 0 {\n			return 0, nil\n		}\n		return l / r, nil\n	case "*":\n		return l * r, nil\n	case "<":\n		return l < r, nil\n	case ">":\n		return l > r, nil\n	case "!=":\n		return l != r, nil\n	case ">=":\n		return l >= r, nil\n	case "<=":\n		return l <= r, nil\n	case "==":\n		return l == r, nil\n	}\n	return nil, fmt.Errorf("unknown operator for integer %s", op)'),
 ("C06","string-plus-drops","compiler.go",'	case "+":\n		return l + rr, nil\n	case "<":\n		return l < rr, nil','	case "+":\n		return l, nil\n	case "<":\n		return l < rr, nil'),
 ("C07","zero-falsy","compiler.go",'	case template.HTML:\n		return t != ""\n	default:','	case template.HTML:\n		return t != ""\n	case int:\n		return t != 0\n	default:'),
 ("C07","nil-ptr-truthy","compiler.go",'		if reflect.ValueOf(i).Kind() == reflect.Ptr && reflect.ValueOf(i).IsNil() {\n			return false\n		}\n','		_ = reflect.Ptr\n'),
 ("C09","no-restore-for","compiler.go",'func (c *compiler) evalForExpression(node *ast.ForExpression) (interface{}, error) {\n	octx := c.ctx.(*Context)\n	defer func() {\n		c.ctx = octx\n	}()','func (c *compiler) evalForExpression(node *ast.ForExpression) (interface{}, error) {\n	octx := c.ctx.(*Context)'),
 ("C09","blockwith-no-restore","helper_context.go",'	defer func() { h.compiler.ctx = octx }()\n','	_ = octx\n'),
 ("C10","alias-parent-map","context.go",'	cc := NewContextWithOuter(map[string]interface{}{}, c)','	cc := NewContextWithOuter(c.data, c)'),
 ("C10","helper-overrides-user","context.go",'		if !c.Has(k) {\n			c.Set(k, v)\n		}','		c.Set(k, v)'),
 ("C10","value-skips-local","context.go",'		if ok {\n			return v\n		}\n		if c.outer != nil {','		if ok && c.outer == nil {\n			return v\n		}\n		if c.outer != nil {'),
 ("C13","evaluator-writes-ast","compiler.go",'	iter, err := c.evalExpression(node.Iterable)\n	if err != nil {\n		return nil, err\n	}\n\n	riter := reflect.ValueOf(iter)','	node.KeyName = "k"\n	iter, err := c.evalExpression(node.Iterable)\n	if err != nil {\n		return nil, err\n	}\n\n	riter := reflect.ValueOf(iter)'),
 ("C13","clone-drops-program","template.go",'		program: t.program,\n	}\n	return t2','		program: nil,\n	}\n	return t2'),
 ("C13","cache-by-length","plush.go",'	t, ok := cache[input]\n	if ok {\n		return t, nil\n	}','	t, ok := cache[input[:len(input)/2]]\n	if ok {\n		return t, nil\n	}'),
 ("C19","ranger-off-by-one","helpers/iterators/range.go",'	if r.done || r.pos > r.end {','	if r.done || r.pos >= r.end {'),
 ("C19","until-extreme","helpers/iterators/until.go",'	if a <= 0 {\n		return &ranger{done: true}\n	}','	if a == 0 {\n		return &ranger{done: true}\n	}'),
 ("C19","groupby-size","iterators.go",'		groupSize := u.Len() / size\n		if u.Len()%size != 0 {\n			groupSize++\n		}','		groupSize := u.Len() / size\n		if u.Len()%size != 0 && size > 2 {\n			groupSize++\n		}'),
 ("C19","len-ptr","helpers/meta/len.go",'	if rv.Kind() == reflect.Ptr {\n		rv = rv.Elem()\n	}\n','	_ = reflect.Ptr\n'),
 ("C20","truncate-plus-one","helpers/text/truncate.go",'	keep := size - len(runesTrail)','	keep := size - len(runesTrail) + 1'),
 ("C20","truncate-assert","helpers/text/truncate.go",'	size, ok := opts["size"].(int)\n	if !ok {\n		size = 50\n	}','	size := 50\n	if opts["size"] != nil {\n		size = opts["size"].(int)\n	}'),
 ("C20","raw-trims","helpers/encoders/raw.go",'	return template.HTML(s)','	return template.HTML(s + "")[0:len(s)/2*2]'),
 ("C02","readhtml-no-unescape","lexer/lexer.go",'	return strings.Replace(l.input[position:l.position], "\\\\<%", "<%", -1)','	return l.input[position:l.position]'),
 ("C02","string-keeps-escape","lexer/lexer.go",'	s := l.input[position:l.position]\n	return strings.Replace(s, "\\\\\\"", "\\"", -1)','	s := l.input[position:l.position]\n	return s'),
 ("C02","nul-ends-text","lexer/lexer.go",'	position := l.position\n\n	for !l.atEOF() {','	position := l.position\n\n	for l.ch != 0 {'),
 ("C08","iter-key-constant","compiler.go",'				ii = it.Next()\n				i++','				ii = it.Next()'),
 ("C08","slice-skips-last","compiler.go",'		for i := 0; i < riter.Len(); i++ {\n			v := riter.Index(i)\n			c.ctx.Set(node.KeyName, i)','		for i := 0; i < riter.Len()-1; i++ {\n			v := riter.Index(i)\n			c.ctx.Set(node.KeyName, i)'),
 ("C08","slice-key-off","compiler.go",'			v := riter.Index(i)\n			c.ctx.Set(node.KeyName, i)','			v := riter.Index(i)\n			c.ctx.Set(node.KeyName, i+1)'),
 ("C12","first-result-wrong","compiler.go",'		return res[0].Interface(), nil\n	}\n\n	return nil, nil','		return res[len(res)-1].Interface(), nil\n	}\n\n	return nil, nil'),
 ("C14","set-unlocked","context.go",'	c.moot.Lock()\n	defer c.moot.Unlock()\n\n	c.data[key] = value','	c.data[key] = value'),
 ("C14","value-unlocked","context.go",'		c.moot.Lock()\n		v, ok := c.data[s]\n		c.moot.Unlock()','		v, ok := c.data[s]'),
 ("C15","stamp-own-line","lexer/lexer.go",'	case l.ch != 0 || !l.atEOF():\n		line = l.tagLine\n	}','	case l.ch == 0 && l.atEOF():\n		line = l.curLine\n	}'),
 ("C15","tagline-not-recorded","lexer/lexer.go",'	case l.ch == \'<\' && l.peekChar() == \'%\':\n		l.tagLine = line\n','	case l.ch == \'<\' && l.peekChar() == \'%\' && l.tagLine == 0:\n		l.tagLine = line\n'),
 ("C13","newtemplate-keeps-partial","template.go",'	program, err := parser.Parse(t.Input)\n	if err != nil {\n		return err\n	}\n\n	t.program = program\n	return nil','	program, err := parser.Parse(t.Input)\n	t.program = program\n	return err'),
 ("C18","comment-skips-one","parser/parser.go",'	for p.curToken.Type != token.E_END && p.curToken.Type != token.EOF {\n		p.nextToken()\n	}\n\n	return &ast.StringLiteral{TokenAble: ast.TokenAble{Token: p.curToken}, Value: ""}','	for p.curToken.Type != token.E_END && p.curToken.Type != token.EOF {\n		p.nextToken()\n	}\n	p.nextToken()\n\n	return &ast.StringLiteral{TokenAble: ast.TokenAble{Token: p.curToken}, Value: ""}'),
 ("C07","negate-if","compiler.go",'	if c.isTruthy(con) {\n		return c.evalBlockStatement(node.Block)','	if !c.isTruthy(con) {\n		return c.evalBlockStatement(node.Block)'),
 ("C07","negate-elseif","compiler.go",'		if c.isTruthy(eiCon) {','		if !c.isTruthy(eiCon) {'),
 ("C07","elseif-renders-else","compiler.go",'			return c.evalBlockStatement(eiNode.Block)','			return c.evalBlockStatement(node.ElseBlock)'),
 ("C07","else-ignored","compiler.go",'	if node.ElseBlock != nil {\n		return c.evalBlockStatement(node.ElseBlock)\n	}\n\n	return r, nil','	return r, nil'),
 ("C17","partial-no-child-scope","partial_helper.go",'	help.Context = help.New()\n	for k, v := range data {','	for k, v := range data {'),
 ("C17","yield-not-html","partial_helper.go",'"yield": template.HTML(part)}','"yield": part}'),
 ("C17","contentof-renders-twice","helpers/content/of.go",'	return fn(data)','	fn(data)\n	return fn(data)'),
 ("C17","contentof-drops-data","helpers/content/of.go",'	return fn(data)','	return fn(nil)'),
 ("C05","no-wrap","compiler.go",'			return nil, fmt.Errorf("could not call %s function: %w", node.Function, e)','			return nil, fmt.Errorf("could not call %s function: %v", node.Function, e)'),
 ("C06","table-plus-product","parser/precedences.go",'	token.PLUS:     SUM,','	token.PLUS:     PRODUCT,'),
 ("C06","order-sum-product","parser/precedences.go",'	SUM             // +\n	PRODUCT         // *','	PRODUCT         // *\n	SUM             // +'),
 ("C06","right-assoc","parser/parser.go",'	expression.Right = p.parseExpression(precedence)','	expression.Right = p.parseExpression(precedence - 1)'),
 ("C06","loop-le","parser/parser.go",'precedence < p.peekPrecedence() {','precedence <= p.peekPrecedence() {'),
 ("C06","prefix-loose","parser/parser.go",'	expression.Right = p.parseExpression(PREFIX)','	expression.Right = p.parseExpression(LOWEST)'),
 ("C06","and-no-shortcircuit","compiler.go",'	case node.Operator == "&&" && !c.isTruthy(lres):','	case node.Operator == "&&" && lres == nil:'),
 ("C16","call-value-wrapped","compiler.go",'	return functionValue(res), nil','	return res, nil'),
 ("C16","unwrap-despite-output","compiler.go",'	for len(cur.Value) == 1 {','	for len(cur.Value) >= 1 {'),
 ("C16","loop-ignores-return","compiler.go",'			if ro, ok := res.(returnObject); ok && c.fnDepth > 0 {\n				return loopReturn(ret, ro), nil\n			}\n\n			breakLoop := false','			if ro, ok := res.(returnObject); ok && c.fnDepth > 1 {\n				return loopReturn(ret, ro), nil\n			}\n\n			breakLoop := false'),
 ("C16","depth-not-restored","compiler.go",'	c.fnDepth++\n	res, err := c.evalBlockStatement(node.Block)\n	c.fnDepth--','	c.fnDepth++\n	res, err := c.evalBlockStatement(node.Block)'),
]
M += [
 ("C04","nil-embedded-field","compiler.go",'		f, ok := fieldByName(rv, node.Value)\n		if !ok {','		f, ok := rv.FieldByName(node.Value), true\n		if !ok {'),
 ("C11","nil-embedded-field","compiler.go",'		f, ok := fieldByName(rv, node.Value)\n		if !ok {','		f, ok := rv.FieldByName(node.Value), true\n		if !ok {'),
 ("C11","nil-embedded-other-value","compiler.go",'			// promoted through an embedded pointer that is nil: the path ends at a nil pointer\n			return nil, nil','			return rv.Interface(), nil'),
 ("C04","pathfor-nil-pointer","helpers/paths/path_for.go",'	if !rv.IsValid() {\n		return "", errors.New("can not calculate path to nil")\n	}\n','	_ = errors.New\n'),
 ("C04","pathfor-nil-embedded","helpers/paths/path_for.go",'		f = fieldByName(rv, "ID")','		f = rv.FieldByName("ID")'),
]
M += [
 ("C04","unhashable-key-read","compiler.go",'		if !kv.Comparable() {\n			return nil, fmt.Errorf(','		if false {\n			return nil, fmt.Errorf('),
 ("C04","unhashable-key-write","compiler.go",'		if !kv.Comparable() {\n			return fmt.Errorf(','		if false {\n			return fmt.Errorf('),
 ("C04","nil-value-receiver-string","compiler.go",'		if !nilValueReceiver(t, "String") {','		if true {'),
 ("C04","nil-value-receiver-html","compiler.go",'		if !nilValueReceiver(t, "HTML") {','		if t != nil {'),
 ("C04","nil-value-receiver-anyptr","compiler.go",'	_, ok := rv.Type().Elem().MethodByName(m)\n	return ok','	_, ok := rv.Type().MethodByName(m)\n	return !ok'),
]
M += [
 ("C11","nomethod-yields-receiver","compiler.go",'		if !rv.IsValid() {\n			return nil, fmt.Errorf("\'%s\' does not have a method named \'%s\' (%s.%s)", node.Callee.String(), mname, node.Callee.String(), mname)\n		}\n','		if !rv.IsValid() {\n			return rc.Interface(), nil\n		}\n'),
 ("C05","nomethod-yields-receiver","compiler.go",'		if !rv.IsValid() {\n			return nil, fmt.Errorf("\'%s\' does not have a method named \'%s\' (%s.%s)", node.Callee.String(), mname, node.Callee.String(), mname)\n		}\n','		if !rv.IsValid() {\n			return rc.Interface(), nil\n		}\n'),
]
M += [
 ("C14","all-hands-out-shared-map","helpers/map.go",'	m := make(map[string]interface{}, len(h.helpers))\n	for k, v := range h.helpers {\n		m[k] = v\n	}\n\n	return m\n}\n','	return h.helpers\n}\n'),
]
def main():
    only = sys.argv[1:] 
    for prop,name,f,old,new in M:
        src=open('/repo/'+f).read()
        if old not in src:
            print("STALE", prop, name); continue
        d=tempfile.mkdtemp()
        a=os.path.join(d,'a'); b=os.path.join(d,'b')
        os.makedirs(os.path.dirname(os.path.join(a,f)),exist_ok=True); os.makedirs(os.path.dirname(os.path.join(b,f)),exist_ok=True)
        open(os.path.join(a,f),'w').write(src); open(os.path.join(b,f),'w').write(src.replace(old,new,1))
        r=subprocess.run(['diff','-u',os.path.join('a',f),os.path.join('b',f)],cwd=d,capture_output=True,text=True)
        os.makedirs('/verif/selftest/'+prop,exist_ok=True)
        open('/verif/selftest/%s/%s.patch'%(prop,name),'w').write(r.stdout)
        shutil.rmtree(d)
    print("wrote", len(M))
main()
