#!/bin/bash
# selftest/run.sh [PROP...] : every patch in the must-fail corpus must make its property's check
# report a VIOLATION (exit 1) on a scratch copy of the repository (outside /repo and /verif, removed
# afterwards). Exit 0 iff all patches are caught; prints one line per patch.
# env: SELFTEST_SRC (default /repo), PVBIN (default <verif>/bin/plushvc)
export GOFLAGS=-mod=mod GOPROXY=off GOSUMDB=off GOTOOLCHAIN=local
V="$(cd "$(dirname "$0")/.." && pwd)"
SRC="${SELFTEST_SRC:-/repo}"
BIN="${PVBIN:-$V/bin/plushvc}"
props="$@"; [ -z "$props" ] && props=$( (ls "$V/selftest"; ls "$V/seeded") | grep -E '^C[0-9][0-9]$' | sort -u)
fail=0
for p in $props; do
  # the corpus of a property = its hand-made patches + the independently seeded change (section 14)
  for patch in "$V"/selftest/$p/*.patch "$V"/seeded/$p/patch.diff "$V"/seeded/${p}b/patch.diff "$V"/seeded/${p}c/patch.diff "$V"/seeded/${p}d/patch.diff "$V"/seeded/${p}e/patch.diff "$V"/seeded/${p}f/patch.diff; do
    [ -f "$patch" ] || continue
    # a seeded change recorded as outside the model (meta.json: result_now "NOT caught ...", DESIGN section 14)
    # is reported as such and does not make the corpus fail
    if [ -f "$(dirname "$patch")/meta.json" ] && grep -q '"result_now": "NOT caught' "$(dirname "$patch")/meta.json"; then
      echo "DOCUMENTED-MISS $p $(basename $(dirname $patch))/$(basename $patch)"; continue
    fi
    scratch=$(mktemp -d /tmp/pvself.XXXXXX)
    (cd "$SRC" && git ls-files -z | xargs -0 cp --parents -t "$scratch")
    if ! (cd "$scratch" && patch -s -p1 < "$patch"); then echo "STALE  $p $(basename $(dirname $patch))/$(basename $patch)"; fail=1; rm -rf "$scratch"; continue; fi
    if ! (cd "$scratch" && go build ./... 2>/dev/null); then echo "NOBUILD $p $(basename $(dirname $patch))/$(basename $patch)"; rm -rf "$scratch"; fail=1; continue; fi
    ev=$(mktemp -d /tmp/pvselfv.XXXXXX)
    mkdir -p $ev/ledger; cp "$V/props.json" "$V/known_findings.jsonl" $ev/; cp "$V/ledger/$p.json" $ev/ledger/; cp -r "$V/replay" $ev/
    out=$(VERIF_NO_REPLAY=${SELFTEST_NO_REPLAY-} "$BIN" -repo "$scratch" -stdlib "$V/stdlib" -verif "$ev" -prop $p -tier quick 2>&1); rc=$?
    if [ $rc -eq 1 ] && echo "$out" | grep -q '^VIOLATION'; then
      echo "CAUGHT $p $(basename $(dirname $patch))/$(basename $patch): $(echo "$out" | grep '^VIOLATION' | head -1 | sed 's/.*# //')"
    else
      echo "MISSED $p $(basename $(dirname $patch))/$(basename $patch) (rc=$rc)"; echo "$out" | tail -3 | sed 's/^/    /'; fail=1
    fi
    rm -rf "$scratch" "$ev"
  done
done
exit $fail
