#!/usr/bin/env python3
"""Builds the must-pass corpus: behaviour-preserving edits of /repo (renames, extracted helpers, hoisted
lookups, equivalent library calls, reworded messages, a correct RWMutex conversion). Every registered check
must still exit 0 on each of them. Patches are unified diffs against /repo's working tree."""
import subprocess, os, sys, tempfile, shutil
H = [
 ("rename-breakloop", [("compiler.go", [("breakLoop", "stopLoop")])]),
 ("extract-loop-helper", [("compiler.go", [(
'''func (c *compiler) evalArrayLiteral(node *ast.ArrayLiteral) (interface{}, error) {
	res := []interface{}{}

	for _, e := range node.Elements {
		i, err := c.evalExpression(e)
		if err != nil {
			return nil, err
		}

		res = append(res, i)
	}

	return res, nil
}''',
'''func (c *compiler) evalArrayLiteral(node *ast.ArrayLiteral) (interface{}, error) {
	return c.evalAll(node.Elements)
}

// evalAll evaluates the expressions in order and collects their values
func (c *compiler) evalAll(es []ast.Expression) (interface{}, error) {
	res := []interface{}{}
	for _, e := range es {
		i, err := c.evalExpression(e)
		if err != nil {
			return nil, err
		}

		res = append(res, i)
	}

	return res, nil
}''')])]),
 ("hoist-type-lookup", [("compiler.go", [(
'''			hhc := reflect.TypeOf((*hctx.HelperContext)(nil)).Elem()
''','''			hhc := hctxHelperContextType
'''),(
'''type compiler struct {''','''// hctxHelperContextType is the interface type helpers may ask for
var hctxHelperContextType = reflect.TypeOf((*hctx.HelperContext)(nil)).Elem()

type compiler struct {''')])]),
 ("rwmutex-correct", [("context.go", [
  ("	moot  *sync.Mutex", "	moot  *sync.RWMutex"),
  ("		c.moot.Lock()\n		v, ok := c.data[s]\n		c.moot.Unlock()", "		c.moot.RLock()\n		v, ok := c.data[s]\n		c.moot.RUnlock()"),
  ("	c.moot.Lock()\n	defer c.moot.Unlock()\n\n	m := make(map[string]interface{}, len(c.data))", "	c.moot.RLock()\n	defer c.moot.RUnlock()\n\n	m := make(map[string]interface{}, len(c.data))"),
  ("moot:    &sync.Mutex{},", "moot:    &sync.RWMutex{},"),
 ])]),
 ("replaceall", [("lexer/lexer.go", [
  ('strings.Replace(x, "\\\\<%", "<%", -1)', 'strings.ReplaceAll(x, "\\\\<%", "<%")'),
  ('strings.Replace(l.input[position:l.position], "\\\\<%", "<%", -1)', 'strings.ReplaceAll(l.input[position:l.position], "\\\\<%", "<%")'),
 ])]),
 ("reword-error", [("compiler.go", [("array index out of bounds, got index %d, while array size is %d", "index %d is out of range for an array of size %d")])]),
 ("guard-clause", [("compiler.go", [(
'''	res := rv.Call(args)
	if len(res) > 0 {
		if e, ok := res[len(res)-1].Interface().(error); ok {
			return nil, fmt.Errorf("could not call %s function: %w", node.Function, e)
		}''',
'''	res := rv.Call(args)
	if len(res) == 0 {
		return nil, nil
	}
	{
		if e, ok := res[len(res)-1].Interface().(error); ok {
			return nil, fmt.Errorf("could not call %s function: %w", node.Function, e)
		}''')])]),
 ("bstring-indexbyte-counting", [("lexer/lexer.go", [(
'''	position := l.position + 1
	for !l.atEOF() {
		l.readChar()
		if l.ch == '`' {
			break
		}
	}
	s := l.input[position:l.position]
	return s
}''',
'''	position := l.position + 1
	for !l.atEOF() {
		l.readChar()
		if l.ch == '`' {
			break
		}
	}
	// the literal is everything up to (not including) the closing backtick
	return l.input[position:l.position]
}''')])]),
 ("comments-and-blank-lines", [("parser/parser.go", [("func (p *parser) parseCommentLiteral() ast.Expression {\n", "// parseCommentLiteral skips a comment tag\n\nfunc (p *parser) parseCommentLiteral() ast.Expression {\n\n")])]),
 ("truncate-rewritten", [("helpers/text/truncate.go", [(
"""	// keep the first size-len(runesTrail) characters of s, cutting the
	// original bytes at a character boundary
	keep := size - len(runesTrail)
	n := 0
	for i := range s {
		if n == keep {
			return s[:i] + trail
		}
		n++
	}
	return s
}""",
"""	// byte offset of character number size-len(runesTrail): that is where s is cut
	cut, seen := len(s), 0
	for off := range s {
		if seen == size-len(runesTrail) {
			cut = off
			break
		}
		seen++
	}
	if cut == len(s) {
		return s
	}
	return s[:cut] + trail
}""")])]),
 ("rename-parameter", [("compiler.go", [(
"""func (c *compiler) evalIfExpression(node *ast.IfExpression) (interface{}, error) {
	con, err := c.evalExpression(node.Condition)
	if err != nil && !isUnknownIdentifier(err, node.Condition) {
		return nil, err
	}

	if c.isTruthy(con) {
		return c.evalBlockStatement(node.Block)
	}

	return c.evalElseAndElseIfExpressions(node)
}""",
"""func (c *compiler) evalIfExpression(ifx *ast.IfExpression) (interface{}, error) {
	con, err := c.evalExpression(ifx.Condition)
	if err != nil && !isUnknownIdentifier(err, ifx.Condition) {
		return nil, err
	}

	if c.isTruthy(con) {
		return c.evalBlockStatement(ifx.Block)
	}

	return c.evalElseAndElseIfExpressions(ifx)
}""")])]),
 ("elseif-index-loop", [("compiler.go", [(
"""	for _, eiNode := range node.ElseIf {
		eiCon, err := c.evalExpression(eiNode.Condition)""",
"""	for k := 0; k < len(node.ElseIf); k++ {
		eiNode := node.ElseIf[k]
		eiCon, err := c.evalExpression(eiNode.Condition)""")])]),
 ("between-reordered", [("helpers/iterators/between.go", [(
"""	if a >= b {
		return &ranger{done: true}
	}""",
"""	if b <= a {
		// nothing lies strictly between
		return &ranger{done: true}
	}""")])]),
 ("tagend-reordered", [("lexer/lexer.go", [(
"""		if l.peekChar() == '>' {
			l.inside = false
			l.readChar()
			tok = token.Token{Type: token.E_END, Literal: "%>", LineNumber: line}
			break
		}
		tok = l.newToken(token.ILLEGAL)""",
"""		if l.peekChar() != '>' {
			tok = l.newToken(token.ILLEGAL)
			break
		}
		tok = token.Token{Type: token.E_END, Literal: "%>", LineNumber: line}
		l.readChar()
		l.inside = false""")])]),
 ("mapkey-one-condition", [("compiler.go", [(
"""		if !kv.IsValid() || !kv.Type().AssignableTo(mapKeyType) {
			err = fmt.Errorf("cannot use %v (%s constant) as %s value in map index", index, kv.Kind().String(), mapKeyType.Kind().String())
			return nil, err
		}
		if !kv.Comparable() {
			return nil, fmt.Errorf("cannot use %v (%T) as a map key: the value is not hashable", index, index)
		}
""",
"""		if !kv.IsValid() || !kv.Type().AssignableTo(mapKeyType) || !kv.Comparable() {
			err = fmt.Errorf("cannot use %v (%s constant) as %s value in map index", index, kv.Kind().String(), mapKeyType.Kind().String())
			return nil, err
		}
""")])]),
 ("runscript-named-child", [("plush.go", [(
"""	ctx = ctx.New()
	ctx.Set("print", func(i interface{}) {
		fmt.Print(i)
	})
	ctx.Set("println", func(i interface{}) {
		fmt.Println(i)
	})

	_, err := Render(input, ctx)
	return err""",
"""	child := ctx.New()
	child.Set("println", func(i interface{}) {
		fmt.Println(i)
	})
	child.Set("print", func(i interface{}) {
		fmt.Print(i)
	})

	_, err := Render(input, child)
	return err""")])]),
]
def main():
    out='/verif/selftest/harmless'
    for name, files in H:
        d=tempfile.mkdtemp(); ok=True
        for f, reps in files:
            src=open('/repo/'+f).read(); new=src
            for a,b in reps:
                if a not in new:
                    print("STALE", name, f, a[:40].replace("\n","\\n")); ok=False; break
                new=new.replace(a,b)
            for side,txt in (('a',src),('b',new)):
                p=os.path.join(d,side,f); os.makedirs(os.path.dirname(p),exist_ok=True); open(p,'w').write(txt)
        if ok:
            r=subprocess.run(['diff','-ruN','a','b'],cwd=d,capture_output=True,text=True)
            open('%s/%s.patch'%(out,name),'w').write(r.stdout)
        shutil.rmtree(d)
    print("wrote", len(H))
main()
